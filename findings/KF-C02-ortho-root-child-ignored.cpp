#include <hfsm2/machine.hpp>
#include <cstdio>
using M = hfsm2::Machine;
struct Apex; struct C1; struct A; struct B; struct C2; struct X; struct Y;
using FSM = M::OrthogonalRoot<Apex, M::Composite<C1,A,B>, M::Composite<C2,X,Y>>;
struct Apex:FSM::State{}; struct C1:FSM::State{}; struct A:FSM::State{}; struct B:FSM::State{}; struct C2:FSM::State{}; struct X:FSM::State{}; struct Y:FSM::State{};
int main(){
  FSM::Instance f;
  f.immediateChangeTo<B>(); f.immediateChangeTo<Y>();
  f.immediateRestart<C1>();
  printf("after restart<C1>: A=%d B=%d X=%d Y=%d\n", f.isActive<A>(), f.isActive<B>(), f.isActive<X>(), f.isActive<Y>());
  return f.isActive<A>() ? 0 : 1;
}
