#pragma once
#ifdef __cplusplus
extern "C" {
#endif
void* memcpy(void*, const void*, __SIZE_TYPE__);
void* memset(void*, int, __SIZE_TYPE__);
#ifdef __cplusplus
}
#endif
