// Sample machine: headed composite root, an orthogonal region with two composite prongs, a leaf.   9 states, 3 composite forks, 1 orthogonal fork.
#define HFSM2_ENABLE_PLANS
#define HFSM2_ENABLE_SERIALIZATION
#define HFSM2_ENABLE_TRANSITION_HISTORY
#define HFSM2_ENABLE_UTILITY_THEORY
#ifdef VM_LOGGER
#if VM_LOGGER == 2
#define HFSM2_ENABLE_LOG_INTERFACE
#else
#define HFSM2_ENABLE_VERBOSE_DEBUG_LOG
#endif
#define HFSM2_ENABLE_STRUCTURE_REPORT
#endif
#include "common/verif.hpp"
using namespace hfsm2; using namespace hfsm2::detail;
struct Rng { float next() { float f = nd_f32(); VASSUME(f >= 0.0f && f < 1.0f); return f; } };
using Cfg = hfsm2::Config::ManualActivation::RandomT<Rng>;
using M = hfsm2::MachineT<Cfg>;
#define S(s) struct s
using FSM = M::Root< S(R), M::Orthogonal<S(O), M::Composite<S(P), S(P1), S(P2)>, M::Composite<S(Q), S(Q1), S(Q2)>>, S(X) >;
#define VM_NS 9
#define VM_NC 3
#define VM_ROOT_HAS_STUB 1
#include "tier_c/spec_types.hpp"
static const VSpec VM_SPEC[VM_NS] = {
  /*0 R */ { -1, 0, K_COMPO, 2, ST_COMPOSITE, 0 },
  /*1 O */ {  0, 0, K_ORTHO, 2, ST_NONE,      0 },
  /*2 P */ {  1, 0, K_COMPO, 2, ST_COMPOSITE, 1 },
  /*3 P1*/ {  2, 0, K_LEAF,  0, ST_NONE,     -1 },
  /*4 P2*/ {  2, 1, K_LEAF,  0, ST_NONE,     -1 },
  /*5 Q */ {  1, 1, K_COMPO, 2, ST_COMPOSITE, 2 },
  /*6 Q1*/ {  5, 0, K_LEAF,  0, ST_NONE,     -1 },
  /*7 Q2*/ {  5, 1, K_LEAF,  0, ST_NONE,     -1 },
  /*8 X */ {  0, 1, K_LEAF,  0, ST_NONE,     -1 },
};
#define VM_NCFG 5
#include "tier_c/machine_common.hpp"
struct R : St<0> {}; struct O : St<1> {}; struct P : St<2> {}; struct P1 : St<3> {}; struct P2 : St<4> {}; struct Q : St<5> {}; struct Q1 : St<6> {}; struct Q2 : St<7> {}; struct X : St<8> {};
#define VM_FOR_STATES(F_) F_(R, 0) F_(O, 1) F_(P, 2) F_(P1, 3) F_(P2, 4) F_(Q, 5) F_(Q1, 6) F_(Q2, 7) F_(X, 8)
#include "tier_c/view.hpp"
#include "tier_c/steps.hpp"
#include "tier_c/entries.hpp"
