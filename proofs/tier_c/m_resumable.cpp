// Sample machine M3 (DESIGN 4.4): headless composite root, a resumable region, leaves.   6 states, 2 composite forks.
//      0 (root, composite)
//      +- 1 A
//      +- 2 B (resumable)
//      |    +- 3 B1
//      |    +- 4 B2
//      +- 5 C
// feature sets for C15: default = all four optional features; VM_FEATURES 0 = none, 1 = plans + serialization, 2 = history + utility theory
#if !defined VM_FEATURES || VM_FEATURES == 1
#define HFSM2_ENABLE_PLANS
#define HFSM2_ENABLE_SERIALIZATION
#endif
#if !defined VM_FEATURES || VM_FEATURES == 2
#define HFSM2_ENABLE_TRANSITION_HISTORY
#define HFSM2_ENABLE_UTILITY_THEORY
#endif
#ifdef VM_LOGGER
#if VM_LOGGER == 2
#define HFSM2_ENABLE_LOG_INTERFACE
#else
#define HFSM2_ENABLE_VERBOSE_DEBUG_LOG
#endif
#define HFSM2_ENABLE_STRUCTURE_REPORT
#endif
#include "common/verif.hpp"
using namespace hfsm2; using namespace hfsm2::detail;
struct Rng { float next() { float f = nd_f32(); VASSUME(f >= 0.0f && f < 1.0f); return f; } };
#if defined VM_OPTIONS
// C15/C05: Config option chains. 1 = bottom-up reactions; 2 = the same plus head-room options chained AFTER it; 3 = head-room options chained BEFORE it.
// Head-room (task capacity, substitution limit) must not change anything a program that stays within the smaller limits can observe.
#define VM_BOTTOM_UP 1
#if VM_OPTIONS == 1
using Cfg = hfsm2::Config::ManualActivation::RandomT<Rng>::BottomUpReactions;
#elif VM_OPTIONS == 2
using Cfg = hfsm2::Config::ManualActivation::RandomT<Rng>::BottomUpReactions::TaskCapacityN<16>::SubstitutionLimitN<6>;
#else
using Cfg = hfsm2::Config::ManualActivation::TaskCapacityN<16>::SubstitutionLimitN<6>::RandomT<Rng>::BottomUpReactions;
#endif
#elif defined VM_PAYLOAD
using Cfg = hfsm2::Config::ManualActivation::RandomT<Rng>::PayloadT<int32_t>;
#elif defined HFSM2_ENABLE_UTILITY_THEORY
using Cfg = hfsm2::Config::ManualActivation::RandomT<Rng>;
#else
using Cfg = hfsm2::Config::ManualActivation;
#define VM_NO_RNG 1
#endif
using M = hfsm2::MachineT<Cfg>;
#define S(s) struct s
using FSM = M::PeerRoot< S(A), M::Resumable<S(B), S(B1), S(B2)>, S(C) >;
#define VM_NS 6
#define VM_NC 2
#include "tier_c/spec_types.hpp"
static const VSpec VM_SPEC[VM_NS] = {
  /*0 root*/ { -1, 0, K_COMPO, 3, ST_COMPOSITE, 0 },
  /*1 A   */ {  0, 0, K_LEAF,  0, ST_NONE,     -1 },
  /*2 B   */ {  0, 1, K_COMPO, 2, ST_RESUMABLE, 1 },
  /*3 B1  */ {  2, 0, K_LEAF,  0, ST_NONE,     -1 },
  /*4 B2  */ {  2, 1, K_LEAF,  0, ST_NONE,     -1 },
  /*5 C   */ {  0, 2, K_LEAF,  0, ST_NONE,     -1 },
};
#define VM_NCFG 4          /* configurations: (A) (B,B1) (B,B2) (C) */
#include "tier_c/machine_common.hpp"
struct A : St<1> {}; struct B : St<2> {}; struct B1 : St<3> {}; struct B2 : St<4> {}; struct C : St<5> {};
#define VM_FOR_STATES(F_) F_(A, 1) F_(B, 2) F_(B1, 3) F_(B2, 4) F_(C, 5)
#include "tier_c/view.hpp"
#include "tier_c/steps.hpp"
#include "tier_c/entries.hpp"
