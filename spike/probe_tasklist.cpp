#define HFSM2_DISABLE_TYPEINDEX
#define HFSM2_ENABLE_PLANS
#define HFSM2_ENABLE_SERIALIZATION
#define HFSM2_ENABLE_TRANSITION_HISTORY
#define HFSM2_ENABLE_UTILITY_THEORY
#include <stdint.h>
#include <string.h>
#include <new>
#define private public
#define protected public
#include <hfsm2/machine.hpp>
#undef private
#undef protected
using namespace hfsm2; using namespace hfsm2::detail;
#ifndef CAP
#define CAP 4
#endif
using TL = TaskListT<void, CAP>;
static constexpr Long INV = TL::INVALID;

// ---- spec (abstract view) of the pool, written against the representation
extern "C" bool TL_vacant(const TL* l, Long i) {          // is slot i free?
  if (l->_count >= CAP) return false;
  if (l->_last < CAP && i > l->_last) return true;         // never touched
  Long c = l->_vacantHead;
  for (unsigned k = 0; k < CAP; ++k) {
    if (c == i) return true;
    if (c == l->_vacantTail) return false;
    c = l->_items[c].next;
    if (c >= CAP) return false;
  }
  return false;
}
extern "C" bool TL_wf(const TL* l) {
  if (l->_count > CAP) return false;
  if (l->_count == CAP) return l->_vacantHead == INV && l->_vacantTail == INV;
  if (l->_vacantHead >= CAP || l->_vacantTail >= CAP) return false;
  if (l->_last >= CAP && l->_last != CAP) return false;
  // chain from head reaches tail in < CAP steps, doubly linked, all within [0.._last]
  Long c = l->_vacantHead, prev = INV; unsigned n = 1; bool reached = false;
  bool seen[CAP] = {};
  for (unsigned k = 0; k < CAP; ++k) {
    if (c >= CAP || seen[c]) return false;
    if (l->_last < CAP && c > l->_last) return false;
    seen[c] = true;
    if (l->_items[c].prev != prev) return false;
    if (c == l->_vacantTail) { reached = true; break; }
    prev = c; c = l->_items[c].next; ++n;
  }
  if (!reached) return false;
  if (l->_items[l->_vacantTail].next != INV) return false;
  // the tail of the chain is the high-water slot while the pool still grows
  if (l->_last < CAP && l->_vacantTail != l->_last) return false;
  unsigned untouched = l->_last < CAP ? CAP - 1 - l->_last : 0;
  return l->_count + n + untouched == CAP;
}
extern "C" Long TL_emplace(TL* l, StateID o, StateID d, TransitionType t) { return l->emplace(o, d, t); }
extern "C" void TL_remove(TL* l, Long i) { l->remove(i); }

extern "C" void __CPROVER_assume(bool);
extern "C" void __CPROVER_assert(bool, const char*);
extern "C" unsigned short nondet_ushort();
extern "C" void verif_havoc(void*, unsigned long);

extern "C" void proof_emplace() {
  TL l; verif_havoc(&l, sizeof l);
  __CPROVER_assume(TL_wf(&l));
  TL old = l;
  StateID o = nondet_ushort(), d = nondet_ushort();
  Long r = l.emplace(o, d, TransitionType::RESUME);
  if (old._count == CAP) {
    __CPROVER_assert(r == INV, "full pool: insert fails");
    __CPROVER_assert(l._count == CAP, "full pool: count unchanged");
  } else {
    __CPROVER_assert(r < CAP, "slot in range");
    __CPROVER_assert(TL_vacant(&old, r), "returned slot was free");
    __CPROVER_assert(l._count == old._count + 1, "count+1");
    __CPROVER_assert(l._items[r].origin == o && l._items[r].destination == d && l._items[r].type == TransitionType::RESUME, "contents stored");
    Long j = nondet_ushort(); __CPROVER_assume(j < CAP && j != r);
    __CPROVER_assert(TL_vacant(&l, j) == TL_vacant(&old, j), "other slots keep their status");
    if (!TL_vacant(&old, j))
      __CPROVER_assert(l._items[j].origin == old._items[j].origin && l._items[j].destination == old._items[j].destination && l._items[j].type == old._items[j].type, "live items untouched");
    __CPROVER_assert(!TL_vacant(&l, r), "returned slot now live");
  }
  __CPROVER_assert(TL_wf(&l), "representation invariant preserved");
}
