#define HFSM2_ENABLE_ASSERT
#define HFSM2_ENABLE_PLANS
#define HFSM2_ENABLE_SERIALIZATION
#define HFSM2_ENABLE_TRANSITION_HISTORY
#include <cassert>
#include <cstdlib>
extern "C" void hfsm2_verif_break() { abort(); }
#include <hfsm2/machine.hpp>
#include <cstdio>
using M = hfsm2::MachineT<hfsm2::Config::ManualActivation>;
struct A; struct B; struct C1; struct C2; struct D;
using FSM = M::Root<struct R, A, M::Resumable<B, C1, C2>, D>;
struct R:FSM::State{}; struct A:FSM::State{}; struct B:FSM::State{}; struct C1:FSM::State{}; struct C2:FSM::State{}; struct D:FSM::State{};
int main(){ FSM::Instance a; a.enter(); FSM::Instance b; FSM::Instance::SerialBuffer buf; a.save(buf); b.load(buf); printf("b active A=%d\n", b.isActive<A>()); }
