// configuration view, invariant and pre-state builders (need the complete Instance type)
#pragma once
using Instance = FSM::Instance;
using Registry = Instance::Registry;

// configuration view, read from the registry's active prongs through the SPEC (not through isActive())
static bool spec_active(const Instance& f, int s) {
  for (int k = 0; k <= VM_NS; ++k) {
    const int p = VM_SPEC[s].parent;
    if (p < 0) return f._core.registry.compoActive[0] != INVALID_PRONG;      // root: machine activated
    if (VM_SPEC[p].kind == K_COMPO && f._core.registry.compoActive[VM_SPEC[p].fork] != VM_SPEC[s].prong) return false;
    s = p;
  }
  return false;
}
static bool spec_activated(const Instance& f) { return f._core.registry.compoActive[0] != INVALID_PRONG; }

// C01: the configuration is well-formed (written from the property statement over the declaration)
static bool inv_config(const Instance& f) {
  const Registry& r = f._core.registry;
  for (int s = 0; s < VM_NS; ++s) {
    if (VM_SPEC[s].kind != K_COMPO) continue;
    const Prong a = r.compoActive[VM_SPEC[s].fork];
    const bool head_active = spec_active(f, s);
    if (head_active != (a != INVALID_PRONG)) return false;          // active composite region <=> exactly one active prong is named
    if (a != INVALID_PRONG && a >= VM_SPEC[s].width) return false;
    const Prong res = r.compoResumable[VM_SPEC[s].fork];
    if (res != INVALID_PRONG && res >= VM_SPEC[s].width) return false;
    if (res != INVALID_PRONG && !spec_activated(f)) return false;     // a machine that is not activated remembers nothing (exit() clears the marks)
  }
  return true;
}
// nothing half-applied: no pending request marks, empty queue
static bool inv_quiescent(const Instance& f) {
  const Registry& r = f._core.registry;
  for (int c = 0; c < VM_NC; ++c) if (r.compoRequested[c] != INVALID_PRONG) return false;
  if (!r.compoRemains.empty()) return false;
  if (!r.orthoRequested.empty()) return false;
  if (f._core.requests.count() != 0) return false;
  return true;
}
static bool inv_monitor(const Instance& f) { for (int s = 0; s < VM_NS; ++s) if (VM_HAS_STUB(s) && g_entered[s] != spec_active(f, s)) return false; return true; }
static bool inv_all(const Instance& f) { return inv_config(f) && inv_quiescent(f) && inv_monitor(f); }

// the API's own answers agree with the view (C01/C13, asserted after every step)
static void assert_queries_agree(const Instance& f) {
  for (int s = 0; s < VM_NS; ++s) {
    VASSERT(C01/C13, f.isActive((StateID) s) == spec_active(f, s), "isActive(s) reports the well-formed configuration");
    if (VM_SPEC[s].kind == K_COMPO) {
      const Prong a = f.activeSubState((StateID) s);
      VASSERT(C01/C13, spec_active(f, s) ? (a < VM_SPEC[s].width) : (a == INVALID_PRONG), "activeSubState(r) names the single active sub-state, invalid while r is inactive");
    }
  }
}

// ------------------------------------------------------------------------------------------------ symbolic pre-state
// overwrite the mutable configuration of a constructed instance with arbitrary values (then assume the invariant)
static void nd_configuration(Instance& f) {
  Registry& r = f._core.registry;
  for (int c = 0; c < VM_NC; ++c) { r.compoActive[c] = nd_u8(); r.compoResumable[c] = nd_u8(); }
}
static void sync_monitor(const Instance& f) {
  for (int s = 0; s < VM_NS; ++s) { g_entered[s] = spec_active(f, s); g_enter_count[s] = 0; g_exit_count[s] = 0; g_exit_guard_ran[s] = false; g_entry_guard_ran[s] = false; }
  for (int s = 0; s < VM_NS; ++s) g_this[s] = nullptr; g_this_consistent = true;
#ifdef VM_INJECT
  for (int s = 0; s < VM_NS; ++s) { g_inj_mark[s] = 0; g_own_mark[s] = 0; g_inj_entered[s] = spec_active(f, s); }
#endif
  g_seq_len = 0; g_guard_calls = 0; g_in_processing = false; g_round_cancelled = false; g_guards_forbidden = false; g_expect_guards = false; g_watch_pending = false; g_pend_seen = 0; g_pend_stable = true; for (int s = 0; s < VM_NS; ++s) { g_pend_enter[s] = g_pend_exit[s] = g_pend_change[s] = 0; }
  for (int s = 0; s < VM_NS; ++s) { g_sel_called[s] = g_rank_called[s] = g_util_called[s] = false; } g_rng_draws = 0;
  g_trace_len = 0; g_log_len = 0; g_log_transitions = 0; g_log_cancels = 0; g_requests_issued = 0; g_cancels_issued = 0; g_deterministic = false;
  g_pay_n = 0; g_actor = -1; g_action = 0; g_actor2 = -1; g_action2 = 0; for (int s = 0; s < VM_NS; ++s) { g_plan_succeeded[s] = 0; g_plan_failed[s] = 0; }
  g_sub_nocancel = false; g_sub_veto2 = false; g_pp_a = g_pp_b = -1; g_pp_rounds = 0; g_sub_guard = -1; g_sub_done = false; g_sub_forever = false; g_round_now = 0; g_cancel_round[1] = g_cancel_round[2] = false; g_sub_guard_calls = 0;
}
// enumerate the well-formed ACTIVE configurations of the declaration (case key for update/react): configuration #k
static unsigned cfg_count_rec(int s);
static unsigned cfg_count_rec(int s) {                 // number of configurations of the sub-tree of s, given s active
  if (VM_SPEC[s].kind == K_LEAF) return 1;
  unsigned total = VM_SPEC[s].kind == K_COMPO ? 0 : 1;
  for (int c = s + 1; c < VM_NS; ++c) if (VM_SPEC[c].parent == s) {
    if (VM_SPEC[s].kind == K_COMPO) total += cfg_count_rec(c); else total *= cfg_count_rec(c);
  }
  return total;
}
static void cfg_clear_rec(Instance& f, int s) {
  if (VM_SPEC[s].kind == K_COMPO) f._core.registry.compoActive[VM_SPEC[s].fork] = INVALID_PRONG;
  for (int c = s + 1; c < VM_NS; ++c) if (VM_SPEC[c].parent == s) cfg_clear_rec(f, c);
}
static void cfg_set_rec(Instance& f, int s, unsigned k) {
  if (VM_SPEC[s].kind == K_LEAF) return;
  if (VM_SPEC[s].kind == K_COMPO) {
    for (int c = s + 1; c < VM_NS; ++c) if (VM_SPEC[c].parent == s) {
      const unsigned n = cfg_count_rec(c);
      if (k < n) { f._core.registry.compoActive[VM_SPEC[s].fork] = VM_SPEC[c].prong; cfg_set_rec(f, c, k); }
      else cfg_clear_rec(f, c);
      k = k < n ? (unsigned) -1 : k - n;            // after the chosen branch every later sibling is cleared
    }
  } else {
    for (int c = s + 1; c < VM_NS; ++c) if (VM_SPEC[c].parent == s) { const unsigned n = cfg_count_rec(c); cfg_set_rec(f, c, k % n); k /= n; }
  }
}
static void set_configuration(Instance& f, unsigned k) { cfg_set_rec(f, 0, k); }

