#!/usr/bin/env python3
"""keep a confirmed seeded change: keep_seed.py <worktree> <seed-id> <property> <needs> <detected_by> <notes>"""
import sys, os, json, shutil
wt, sid, prop, needs, detected, notes = sys.argv[1:7]
d = os.path.join('/verif/seeded', sid); os.makedirs(d, exist_ok=True)
for f in ('patch.diff', 'demo.cpp', 'run.sh'):
    if os.path.exists(os.path.join(wt, '_seed', f)): shutil.copy(os.path.join(wt, '_seed', f), os.path.join(d, f))
agent = open(os.path.join(wt, '_seed', 'notes.md')).read() if os.path.exists(os.path.join(wt, '_seed', 'notes.md')) else ''
ev = open(os.path.join(wt, '_seed', 'eval.log')).read() if os.path.exists(os.path.join(wt, '_seed', 'eval.log')) else ''
json.dump({'id': sid, 'breaks_property': prop, 'needs_to_manifest': needs,
           'author': 'independent sub-agent given only the property text and a scratch worktree',
           'confirmed': 'tools/confirm_seed.sh <worktree>: test suite (HFSM2_BUILD_TESTS=ON) passes with the change; demo exits non-zero with the change and 0 without\n' + '\n'.join(l for l in ev.split('\n') if 'tests passed' in l or l.startswith('demo ')),
           'checked_with': 'VERIF_REPO=<worktree with the change> ./check %s ... (tools/seed_eval.sh), or tools/try_seed.sh seeded/%s/patch.diff %s' % (prop, sid, prop),
           'detected_by': detected.split(' || '), 'notes': notes, 'agent_notes': agent[:6000]}, open(os.path.join(d, 'meta.json'), 'w'), indent=1)
print('kept', d)
