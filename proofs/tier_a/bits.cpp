// C18: BitArrayT<VP_N> / Bits / CBits against the set-of-indices view; StreamBufferT and bit streams against the bit-string view.  Tier A
#define HFSM2_ENABLE_SERIALIZATION
#include "common/verif.hpp"
using namespace hfsm2; using namespace hfsm2::detail;
#ifndef VP_N
#define VP_N 17
#endif
#ifndef VP_SCAP
#define VP_SCAP 31      // stream capacity in bits
#endif
#ifndef VP_W1
#define VP_W1 5
#endif
#ifndef VP_W2
#define VP_W2 12
#endif
using BA = BitArrayT<VP_N>;
static constexpr unsigned UNITS = BA::UNIT_COUNT;

// ---- view: bit i of the array (independent of the library's accessors)
static bool bit(const BA& a, unsigned i) { return (a._storage[i >> 3] >> (i & 7)) & 1; }
static void nd_ba(BA& a) { for (unsigned u = 0; u < UNITS; ++u) a._storage[u] = nd_u8(); }

extern "C" void proof_ba_index() {
  BA a; nd_ba(a); BA old = a;
  unsigned i = nd_u16(); VASSUME(i < VP_N);
  unsigned j = nd_u16(); VASSUME(j < 8 * UNITS && j != i);          // ghost index: any other bit of the storage
  VASSERT(C18, a.get(i) == bit(a, i), "get(i) reads exactly bit i");
  a.set(i);
  VASSERT(C18, bit(a, i) && bit(a, j) == bit(old, j), "set(i) sets bit i and disturbs no other bit");
  a = old; a.clear(i);
  VASSERT(C18, !bit(a, i) && bit(a, j) == bit(old, j), "clear(i) clears bit i and disturbs no other bit");
  BA z; VASSERT(C18, !bit(z, j) && z.empty(), "a new array is the empty set");
}
extern "C" void proof_ba_static() {
  BA a; nd_ba(a); BA old = a;
  constexpr Short I = VP_N - 1, I0 = 0, IM = (VP_N - 1) / 2;
  unsigned j = nd_u16(); VASSUME(j < 8 * UNITS);
  VASSERT(C18, a.get<I>() == bit(a, I) && a.get<I0>() == bit(a, I0) && a.get<IM>() == bit(a, IM), "get<I>() reads exactly bit I");
  a.set<I>();   VASSERT(C18, bit(a, I) && (j == I || bit(a, j) == bit(old, j)), "set<I>() sets bit I only");
  a = old; a.clear<I>(); VASSERT(C18, !bit(a, I) && (j == I || bit(a, j) == bit(old, j)), "clear<I>() clears bit I only");
  a = old; a.set<IM>(); VASSERT(C18, bit(a, IM) && (j == IM || bit(a, j) == bit(old, j)), "set<IM>() sets bit IM only");
}
extern "C" void proof_ba_whole() {
  BA a; nd_ba(a); BA b; nd_ba(b); BA olda = a;
  unsigned j = nd_u16(); VASSUME(j < 8 * UNITS);
  bool any = false, differ = false, meet = false;
  for (unsigned k = 0; k < 8 * UNITS; ++k) { any = any || bit(a, k); differ = differ || bit(a, k) != bit(b, k); meet = meet || (bit(a, k) && bit(b, k)); }
  VASSERT(C18, a.empty() == !any, "empty() <=> no bit set");
  VASSERT(C18, (a != b) == differ, "operator!= <=> the sets differ");
#ifndef SKIP_AND_BOOL
  VASSERT(C18, (a & b) == meet, "operator& <=> the sets intersect");
#endif
  a &= b;
  VASSERT(C18, bit(a, j) == (bit(olda, j) && bit(b, j)), "operator&= is set intersection");
  a.set();   VASSERT(C18, bit(a, j), "set() sets every bit");
  a.clear(); VASSERT(C18, !bit(a, j) && a.empty(), "clear() clears every bit");
}
// ---- code contracts (contracts/bitarray.spec): ghost index, constants, dfcc entry points
extern "C" {
unsigned ba_ghost;       // (ll2c prints globals with a G_ prefix: G_ba_ghost in the spec)
unsigned ba_capacity(void) { return VP_N; }
unsigned ba_units(void) { return UNITS; }
void dfcc_ba_set()   { BA a; ba_ghost = nd_u16(); a.set((unsigned) nd_u16());   VREACH("the contract's precondition is satisfiable: the call returns"); }
void dfcc_ba_clear() { BA a; ba_ghost = nd_u16(); a.clear((unsigned) nd_u16()); VREACH("the contract's precondition is satisfiable: the call returns"); }
void dfcc_ba_get()   { BA a; bool r = a.get((unsigned) nd_u16()); (void) r;        VREACH("the contract's precondition is satisfiable: the call returns"); }
// a caller verified against the callee CONTRACTS only: set(i); clear(j) with i != j; then get(i) is true and get(j) is false
void dfcc_ba_client() {
  BA a; unsigned i = nd_u16(), j = nd_u16(); VASSUME(i < VP_N && j < VP_N && i != j);
  ba_ghost = j; a.set(i);        // the frame clause of set() is instantiated for bit j ...
  ba_ghost = i; a.clear(j);      // ... and the one of clear() for bit i
  __CPROVER_assert(a.get(i) && !a.get(j), "C18: client: set(i), clear(j), i != j: bit i is set and bit j is clear (by the callee contracts alone)");
  VREACH("the callee contracts are consistent: the client reaches its end");
}
}
// ---- views: Bits/CBits over [8*unit, 8*unit + width)
extern "C" void proof_bits_view() {
  BA a; nd_ba(a); BA old = a;
  Units u; u.unit = nd_u8(); u.width = nd_u8();
  VASSUME(u.width >= 1 && u.unit + contain(u.width, 8) <= UNITS);       // precondition asserted by bits()/cbits()
  VREACH("view");
  if (u.width % 8 == 0 && u.unit + u.width / 8 == UNITS) VREACH("byte-aligned view ending at the end of storage");
  unsigned lo = 8u * u.unit, hi = lo + u.width;
  unsigned i = nd_u16(); VASSUME(i < u.width);
  unsigned j = nd_u16(); VASSUME(j < 8 * UNITS && j != lo + i);
  bool any = false; for (unsigned k = 0; k < 8 * UNITS; ++k) if (k >= lo && k < hi) any = any || bit(a, k);
  BA::Bits v = a.bits(u); BA::CBits cv = a.cbits(u);
  VASSERT(C18, v.get(i) == bit(a, lo + i) && cv.get(i) == bit(a, lo + i), "view get(i) reads bit 8*unit+i");
  VASSERT(C18, (bool) v == any, "view emptiness reports its own range only (Bits)");
  VASSERT(C18, (bool) cv == any, "view emptiness reports its own range only (CBits)");
  v.set(i);   VASSERT(C18, bit(a, lo + i) && bit(a, j) == bit(old, j), "view set(i) sets bit 8*unit+i only");
  a = old; v.clear(i); VASSERT(C18, !bit(a, lo + i) && bit(a, j) == bit(old, j), "view clear(i) clears bit 8*unit+i only");
  a = old; v.clear();
  unsigned k2 = nd_u16(); VASSUME(k2 < 8 * UNITS);
  if (k2 >= lo && k2 < hi) VASSERT(C18, !bit(a, k2), "view clear() clears its range");
  if (k2 < lo || k2 >= 8 * (u.unit + contain(u.width, 8))) VASSERT(C18, bit(a, k2) == bit(old, k2), "view clear() leaves units outside the view untouched");
}
extern "C" void proof_bits_static() {
  BA a; nd_ba(a); BA old = a;
  constexpr Short U = (UNITS - 1) / 2, WD = (VP_N - 8 * U) < 11 ? (VP_N - 8 * U) : 11;   // a static view somewhere in the middle
  unsigned lo = 8u * U;
  unsigned j = nd_u16(); VASSUME(j < 8 * UNITS);
  BA::Bits v = a.bits<U, WD>(); BA::CBits cv = a.cbits<U, WD>();
  VASSERT(C18, v._storage == &a._storage[U] && v._width == WD && cv._storage == &a._storage[U] && cv._width == WD, "bits<U,W>() addresses exactly [8U, 8U+W)");
  VASSERT(C18, v.get<WD - 1>() == bit(a, lo + WD - 1) && cv.get(WD - 1) == bit(a, lo + WD - 1), "view get<I>() reads bit 8U+I");
  v.set<WD - 1>();   VASSERT(C18, bit(a, lo + WD - 1) && (j == lo + WD - 1 || bit(a, j) == bit(old, j)), "view set<I>() sets bit 8U+I only");
  a = old; v.clear<0>(); VASSERT(C18, !bit(a, lo) && (j == lo || bit(a, j) == bit(old, j)), "view clear<I>() clears bit 8U+I only");
}

// ------------------------------------------------------------------ streams
using SB = StreamBufferT<VP_SCAP>;
using WS = BitWriteStreamT<VP_SCAP>;
using RS = BitReadStreamT<VP_SCAP>;
static constexpr unsigned SBYTES = SB::BYTE_COUNT;
static bool sbit(const SB& b, unsigned i) { return (b._data[i >> 3] >> (i & 7)) & 1; }
static void nd_sb(SB& b) { for (unsigned k = 0; k < SBYTES; ++k) b._data[k] = nd_u8(); }

extern "C" void proof_sb_compare() {
  SB a; nd_sb(a); SB b; nd_sb(b);
  bool differ = false; for (unsigned k = 0; k < 8 * SBYTES; ++k) differ = differ || sbit(a, k) != sbit(b, k);
  VASSERT(C18, (a == b) == !differ && (a != b) == differ, "buffer comparison is equality of contents");
  unsigned j = nd_u16(); VASSUME(j < 8 * SBYTES);
  a.clear(); VASSERT(C18, !sbit(a, j), "buffer clear() zeroes every bit");
  SB z; VASSERT(C18, !sbit(z, j), "a new buffer is all zero");
  VASSERT(C18, (void*) &a.data() == (void*) &a._data[0], "data() exposes the buffer bytes");
}
// write<W>: requires cursor+W <= capacity, item < 2^W, bits at and above the cursor are zero (stream invariant).
// ensures bits [cursor, cursor+W) == item, every other bit unchanged, cursor advanced by W, invariant kept.
template <Short W> static void write_contract() {
  SB buf; nd_sb(buf);
  Long cur = nd_u16(); VASSUME(cur + W <= VP_SCAP);
  for (unsigned k = 0; k < 8 * SBYTES; ++k) if (k >= cur) VASSUME(!sbit(buf, k));   // invariant established by the constructor's clear()
  UBitWidth<W> item = (UBitWidth<W>) nd_u32(); VASSUME(W == 32 || (uint64_t) item < (1ull << W));
  VREACH("write");
  if (W > 1 && (cur & 7) + W > 8) VREACH("write crossing a byte boundary");
  SB old = buf;
  WS ws(buf, cur);                                   // note: the constructor clears the buffer ...
  buf = old;                                         // ... so the prefix written earlier is restored to check the frame
  ws.template write<W>(item);
  VASSERT(C18, ws.cursor() == cur + W, "write<W> advances the cursor by W");
  unsigned j = nd_u16(); VASSUME(j < 8 * SBYTES);
  if (j >= cur && j < cur + W) VASSERT(C18, sbit(buf, j) == (((uint64_t) item >> (j - cur)) & 1), "write<W> stores the item's bits at [cursor, cursor+W)");
  else VASSERT(C18, sbit(buf, j) == sbit(old, j), "write<W> leaves every other bit unchanged");
}
template <Short W> static void read_contract() {
  SB buf; nd_sb(buf);
  Long cur = nd_u16(); VASSUME(cur + W <= VP_SCAP);
  VREACH("read");
  SB old = buf;
  RS rs(buf, cur);
  UBitWidth<W> item = rs.template read<W>();
  VASSERT(C18, rs.cursor() == cur + W, "read<W> advances the cursor by W");
  unsigned j = nd_u16(); VASSUME(j < W);
  VASSERT(C18, (((uint64_t) item >> j) & 1) == sbit(buf, cur + j), "read<W> returns the bits at [cursor, cursor+W)");
  VASSERT(C18, W == 8 * sizeof(item) || ((uint64_t) item >> W) == 0, "read<W> returns nothing above bit W");
  VASSERT(C18, !(buf != old), "read leaves the buffer untouched");
}
extern "C" void proof_write_w1() { write_contract<VP_W1>(); }
extern "C" void proof_write_w2() { write_contract<VP_W2>(); }
extern "C" void proof_read_w1()  { read_contract<VP_W1>(); }
extern "C" void proof_read_w2()  { read_contract<VP_W2>(); }
// direct round trip of two consecutive items at an arbitrary (unaligned) start
extern "C" void proof_roundtrip() {
  SB buf;
  Long cur = nd_u16(); VASSUME(cur + VP_W1 + VP_W2 <= VP_SCAP);
  if (VP_SCAP > VP_W1 + VP_W2 && (cur & 7)) VREACH("unaligned start");
  UBitWidth<VP_W1> x = (UBitWidth<VP_W1>) nd_u32(); VASSUME(VP_W1 == 32 || (uint64_t) x < (1ull << VP_W1));
  UBitWidth<VP_W2> y = (UBitWidth<VP_W2>) nd_u32(); VASSUME(VP_W2 == 32 || (uint64_t) y < (1ull << VP_W2));
  WS ws(buf, cur); ws.write<VP_W1>(x); ws.write<VP_W2>(y);
  RS rs(buf, cur); UBitWidth<VP_W1> x2 = rs.read<VP_W1>(); UBitWidth<VP_W2> y2 = rs.read<VP_W2>();
  VASSERT(C18, x2 == x && y2 == y, "values written are read back with the same widths");
  VASSERT(C18, rs.cursor() == ws.cursor() && ws.cursor() == cur + VP_W1 + VP_W2, "read and write cursors agree");
}

extern "C" void verif_drive() {
  BA a; SB buf; WS ws(buf); 
  for (int s = 0; s < 200; ++s) {
    unsigned i = nd_u16() % VP_N; unsigned op = nd_u8() % 6;
    if (op == 0) a.set(i); else if (op == 1) a.clear(i); else if (op == 2) verif_observe(a.get(i));
    else if (op == 3) { Units u; u.unit = nd_u8() % UNITS; u.width = 1 + nd_u8() % (8 * (UNITS - u.unit) > 1 ? 8 * (UNITS - u.unit) - 1 : 1); if (u.width % 8 && u.unit + contain(u.width, 8) <= UNITS) { verif_observe((bool) a.bits(u)); verif_observe((bool) a.cbits(u)); } }
    else if (op == 4) verif_observe(a.empty());
    else { if (ws.cursor() + VP_W1 <= VP_SCAP) ws.write<VP_W1>((UBitWidth<VP_W1>)(nd_u32() & ((1u << (VP_W1 < 31 ? VP_W1 : 31)) - 1))); }
    for (unsigned u = 0; u < UNITS; ++u) verif_observe(a._storage[u]);
  }
  RS rs(buf); while (rs.cursor() + VP_W1 <= ws.cursor()) verif_observe(rs.read<VP_W1>());
  for (unsigned k = 0; k < SBYTES; ++k) verif_observe(buf._data[k]);
}
