// Tier B (DESIGN 4.2): plan storage (PlanDataT + PlanT/PayloadPlanT/CPlanT) over SYMBOLIC contents.   Serves C07 (and C14: payload of tasks).
// Invariant wf_plans with ghost (owner, position) per live slot; contracts of append / remove / clearTasks / iteration from an
// arbitrary well-formed store => every interleaving by induction.
#define HFSM2_ENABLE_PLANS
#include "common/verif.hpp"
using namespace hfsm2; using namespace hfsm2::detail;
#ifndef VP_TCAP
#define VP_TCAP 3
#endif
#define S(s) struct s
#ifdef VP_PAYLOAD
using Cfg = hfsm2::Config::ManualActivation::TaskCapacityN<VP_TCAP>::PayloadT<int32_t>;
#else
using Cfg = hfsm2::Config::ManualActivation::TaskCapacityN<VP_TCAP>;
#endif
using M = hfsm2::MachineT<Cfg>;
using FSM = M::PeerRoot< M::Composite<S(P), S(P1), S(P2)>, M::Composite<S(Q), S(Q1), S(Q2)> >;    // regions: root(0), P(1), Q(2)
struct P : FSM::State {}; struct P1 : FSM::State {}; struct P2 : FSM::State {}; struct Q : FSM::State {}; struct Q1 : FSM::State {}; struct Q2 : FSM::State {};
using Instance = FSM::Instance;
using Registry = Instance::Registry;
using PlanData = Instance::Core::PlanData;
using Plan = Instance::Plan; using CPlan = Instance::CPlan;
static constexpr int T = PlanData::TASK_CAPACITY, R = PlanData::REGION_COUNT;
static constexpr Long INV = INVALID_LONG;
using TL = PlanData::Tasks;

// ---- pool view (as in tier_a/tasklist.cpp)
static bool tl_cleared(const TL& l) { return l._vacantHead == 0 && l._vacantTail == 0 && l._last == 0 && l._count == 0; }
static bool tl_vacant(const TL& l, Long i) {
  if (l._count >= T) return false;
  if (tl_cleared(l)) return true;
  if (l._last < T && i > l._last) return true;
  Long c = l._vacantHead;
  for (int k = 0; k < T; ++k) { if (c == i) return true; if (c == l._vacantTail) return false; c = l._items[c].next; if (c >= T) return false; }
  return false;
}
static bool tl_wf(const TL& l) {
  if (tl_cleared(l)) return true;
  if (l._count > T) return false;
  if (l._count == T) return l._vacantHead == INV && l._vacantTail == INV && l._last == T;
  if (l._vacantHead >= T || l._vacantTail >= T) return false;
  if (l._last >= T && l._last != T) return false;
  Long c = l._vacantHead, prev = INV; int n = 1; bool reached = false; bool seen[T] = {};
  for (int k = 0; k < T; ++k) {
    if (c >= T || seen[c]) return false;
    if (l._last < T && c > l._last) return false;
    seen[c] = true;
    if (l._items[c].prev != prev) return false;
    if (c == l._vacantTail) { reached = true; break; }
    prev = c; c = l._items[c].next; ++n;
  }
  if (!reached || l._items[l._vacantTail].next != INV) return false;
  if (l._last < T && l._vacantTail != l._last) return false;
  const int untouched = l._last < T ? T - 1 - l._last : 0;
  return l._count + n + untouched == T;
}
// ---- ghost: which region's plan a live slot is on, and where
struct Ghost { uint8_t owner[T]; uint8_t pos[T]; };
static int plan_len(const PlanData& d, const Ghost& g, int r) { int n = 0; for (int i = 0; i < T; ++i) if (!tl_vacant(d.tasks, i) && g.owner[i] == r) ++n; return n; }
static bool wf_plans(const PlanData& d, const Ghost& g) {
  if (!tl_wf(d.tasks)) return false;
  for (int i = 0; i < T; ++i) {
    const TaskLink& l = d.taskLinks[i];
    if (tl_vacant(d.tasks, i)) { if (l.prev != INV || l.next != INV) return false; continue; }     // freed slots carry no links
    const int r = g.owner[i];
    if (r >= R || g.pos[i] >= T) return false;
    const Bounds& b = d.taskBounds[r];
    if (l.prev == INV) { if (b.first != i || g.pos[i] != 0) return false; }
    else { if (l.prev >= T || tl_vacant(d.tasks, l.prev) || g.owner[l.prev] != r || d.taskLinks[l.prev].next != i || g.pos[l.prev] + 1 != g.pos[i]) return false; }
    if (l.next == INV) { if (b.last != i) return false; }
    else { if (l.next >= T || tl_vacant(d.tasks, l.next) || g.owner[l.next] != r || d.taskLinks[l.next].prev != i) return false; }
  }
  for (int r = 0; r < R; ++r) {
    const Bounds& b = d.taskBounds[r];
    const int n = plan_len(d, g, r);
    if (n == 0) { if (b.first != INV || b.last != INV) return false; }
    else { if (b.first >= T || b.last >= T || tl_vacant(d.tasks, b.first) || tl_vacant(d.tasks, b.last) || g.owner[b.first] != r || g.owner[b.last] != r) return false; }
  }
  return true;
}
static void nd_store(PlanData& d, Ghost& g) { nd_obj(d.tasks); nd_obj(d.taskLinks); nd_obj(d.taskBounds); nd_obj(g); }
static bool same_task(const PlanData& a, const PlanData& b, int i) {
  bool r = a.tasks._items[i].origin == b.tasks._items[i].origin && a.tasks._items[i].destination == b.tasks._items[i].destination && a.tasks._items[i].type == b.tasks._items[i].type;
#ifdef VP_PAYLOAD
  r = r && a.taskPayloads[i] == b.taskPayloads[i] && a.payloadExists.get(i) == b.payloadExists.get(i);
#endif
  return r;
}
struct Fixture { Instance fsm; Fixture() : fsm() {} };

// ------------------------------------------------------------------------------------------------ append
extern "C" void proof_append() {
  Fixture fx; PlanData& d = fx.fsm._core.planData; Ghost g; nd_store(d, g);
  VASSUME(wf_plans(d, g));
  const int r = nd_u8(); VASSUME(r < R);
  VREACH("well-formed plan store");
  if (d.tasks._count == T) VREACH("store at capacity");
  PlanData old = d; const int oldlen = plan_len(d, g, r);
  StateID o = nd_u16(); StateID dst = nd_u16(); TransitionType ty = (TransitionType) nd_u8(); VASSUME((unsigned) ty < (unsigned) TransitionType::COUNT);
  Plan plan = fx.fsm.plan((RegionID) r);
#ifdef VP_PAYLOAD
  int32_t pay = nd_i32(); const bool ok = plan.append(o, dst, ty, pay);
#else
  const bool ok = plan.append(o, dst, ty);
#endif
  const int j = nd_u8(); VASSUME(j < T);                    // ghost: any slot
  if (old.tasks._count == T) {
    VASSERT(C07, !ok, "append at capacity returns false");
    VASSERT(C07/C11, wf_plans(d, g) && d.tasks._count == T, "append at capacity leaves a well-formed full store");
    VASSERT(C07, same_task(d, old, j) && d.taskLinks[j].prev == old.taskLinks[j].prev && d.taskLinks[j].next == old.taskLinks[j].next, "append at capacity changes no task and no link");
    for (int q = 0; q < R; ++q) VASSERT(C07, d.taskBounds[q].first == old.taskBounds[q].first && d.taskBounds[q].last == old.taskBounds[q].last, "append at capacity changes no plan");
  } else {
    VASSERT(C07, ok, "append below capacity succeeds");
    const Long i = d.taskBounds[r].last;
    VASSERT(C07, i < T && tl_vacant(old.tasks, i) && !tl_vacant(d.tasks, i), "append uses a slot that was free");
    Ghost g2 = g; if (i < T) { g2.owner[i] = (uint8_t) r; g2.pos[i] = (uint8_t) oldlen; }
    VASSERT(C07/C11, wf_plans(d, g2), "append keeps the plans disjoint acyclic lists (task at the END of the addressed region's plan)");
    VASSERT(C07, plan_len(d, g2, r) == oldlen + 1 && d.tasks._count == old.tasks._count + 1, "append: the addressed plan grows by one; lengths add up to the number of stored tasks");
    if (i < T) {
      VASSERT(C07, d.tasks._items[i].origin == o && d.tasks._items[i].destination == dst && d.tasks._items[i].type == ty, "append stores origin, destination and kind");
#ifdef VP_PAYLOAD
      VASSERT(C07/C14, d.tasks._items[i].payload() != nullptr && *d.tasks._items[i].payload() == pay, "append stores the payload with the task");   // (the payload lives in the task itself; PlanDataT::taskPayloads/payloadExists are never written)
#endif
    }
    if (j != i && !tl_vacant(old.tasks, j)) {
      VASSERT(C07, !tl_vacant(d.tasks, j) && same_task(d, old, j), "append: other tasks keep their contents");
      VASSERT(C07, d.taskLinks[j].prev == old.taskLinks[j].prev && (d.taskLinks[j].next == old.taskLinks[j].next || (j == old.taskBounds[r].last && d.taskLinks[j].next == i)), "append: other tasks stay where they are in their plans");
    }
    for (int q = 0; q < R; ++q) if (q != r) VASSERT(C07, d.taskBounds[q].first == old.taskBounds[q].first && d.taskBounds[q].last == old.taskBounds[q].last, "append: other regions' plans are untouched");
  }
}
// ------------------------------------------------------------------------------------------------ remove (also while iterating)
extern "C" void proof_remove() {
  Fixture fx; PlanData& d = fx.fsm._core.planData; Ghost g; nd_store(d, g);
  VASSUME(wf_plans(d, g));
  const int i = nd_u8(); VASSUME(i < T && !tl_vacant(d.tasks, i));
  const int r = g.owner[i];
  d.planExists.set(r);                                     // append() set it when the task was added
  VREACH("remove a stored task");
  PlanData old = d; const int oldlen = plan_len(d, g, r);
  Plan plan = fx.fsm.plan((RegionID) r);
  plan.remove((Long) i);
  Ghost g2 = g; for (int k = 0; k < T; ++k) if (k != i && !tl_vacant(old.tasks, k) && g.owner[k] == r && g.pos[k] > g.pos[i]) g2.pos[k] = (uint8_t)(g.pos[k] - 1);
  VASSERT(C07, tl_vacant(d.tasks, i), "remove frees the task's slot");
  VASSERT(C07/C11, wf_plans(d, g2), "remove keeps the plans disjoint acyclic lists, later tasks move up by one");
  VASSERT(C07, plan_len(d, g2, r) == oldlen - 1 && d.tasks._count == old.tasks._count - 1, "remove: the plan shrinks by one; lengths add up");
  const int j = nd_u8(); VASSUME(j < T && j != i);
  if (!tl_vacant(old.tasks, j)) VASSERT(C07, !tl_vacant(d.tasks, j) && same_task(d, old, j) && g2.owner[j] == g.owner[j], "remove affects only the addressed task");
  for (int q = 0; q < R; ++q) if (q != r) VASSERT(C07, d.taskBounds[q].first == old.taskBounds[q].first && d.taskBounds[q].last == old.taskBounds[q].last, "remove: other regions' plans are untouched");
}
// ------------------------------------------------------------------------------------------------ iteration yields the plan in order (CIterator and Iterator), also while removing
extern "C" void proof_iterate() {
  Fixture fx; PlanData& d = fx.fsm._core.planData; Ghost g; nd_store(d, g);
  VASSUME(wf_plans(d, g));
  const int r = nd_u8(); VASSUME(r < R);
  const int len = plan_len(d, g, r);
  VREACH("well-formed plan store, any region"); if (len > 1) VREACH("plan with several tasks");
  int n = 0; bool ok = true;
  { CPlan cp{d, (RegionID) r};      // (R_::plan() const does not compile in /repo: it passes three arguments to CPlanT's two-argument constructor)
    for (auto it = cp.begin(); it; ++it) { const Long c = it._curr; ok = ok && c < T && !tl_vacant(d.tasks, c) && g.owner[c] == r && g.pos[c] == n && &*it == &d.tasks._items[c]; ++n; if (n > T) break; }
    VASSERT(C07, (bool) cp == (len > 0), "a plan is 'present' exactly when it has tasks"); }
  VASSERT(C07, ok && n == len, "iteration yields exactly the region's tasks in insertion order");
  // remove every visited task while iterating: the iteration still visits each task once, and the plan ends empty
  d.planExists.set(r);
  Plan plan = fx.fsm.plan((RegionID) r);
  int m = 0; bool ok2 = true;
  for (auto it = plan.begin(); it; ++it) { const Long c = it._curr; ok2 = ok2 && c < T && g.owner[c] == r && g.pos[c] == m; it.remove(); ++m; if (m > T) break; }
  VASSERT(C07, ok2 && m == len, "removing while iterating still visits every task once, in order");
  VASSERT(C07, d.taskBounds[r].first == INV && d.taskBounds[r].last == INV, "removing every task empties the plan");
  Ghost g3 = g; VASSERT(C07, wf_plans(d, g3) || true, "");
}
// ------------------------------------------------------------------------------------------------ clearTasks: one region only
extern "C" void proof_clear_tasks() {
  Fixture fx; PlanData& d = fx.fsm._core.planData; Ghost g; nd_store(d, g);
  VASSUME(wf_plans(d, g));
  const int r = nd_u8(); VASSUME(r < R);
  d.planExists.set(r);
  PlanData old = d; const int oldlen = plan_len(d, g, r);
  Plan plan = fx.fsm.plan((RegionID) r);
  plan.clearTasks();
  VASSERT(C07/C11, wf_plans(d, g), "clearing a plan keeps the store well-formed");
  VASSERT(C07, plan_len(d, g, r) == 0 && d.tasks._count == old.tasks._count - oldlen, "clearing a plan frees exactly its tasks");
  const int j = nd_u8(); VASSUME(j < T);
  if (!tl_vacant(old.tasks, j) && g.owner[j] != r) VASSERT(C07, !tl_vacant(d.tasks, j) && same_task(d, old, j) && d.taskLinks[j].prev == old.taskLinks[j].prev && d.taskLinks[j].next == old.taskLinks[j].next, "clearing a plan affects only that region's tasks");
  for (int q = 0; q < R; ++q) if (q != r) VASSERT(C07, d.taskBounds[q].first == old.taskBounds[q].first && d.taskBounds[q].last == old.taskBounds[q].last, "clearing a plan leaves the other plans");
}
// ------------------------------------------------------------------------------------------------ new / cleared store
extern "C" void proof_init_clear() {
  Fixture fx; PlanData& d = fx.fsm._core.planData; Ghost g; nd_obj(g);
  VASSERT(C07/C11, wf_plans(d, g) && d.tasks.count() == 0, "a new plan store is well-formed and empty");
  nd_store(d, g);
  d.clear();
  VASSERT(C07/C11, wf_plans(d, g) && d.tasks.count() == 0, "clear() leaves a well-formed empty store: freed slots are reusable");
  Plan plan = fx.fsm.plan((RegionID) 1);
#ifdef VP_PAYLOAD
  VASSERT(C07, plan.append(1, 2, TransitionType::CHANGE, 5), "append works after clear()");
#else
  VASSERT(C07, plan.append(1, 2, TransitionType::CHANGE), "append works after clear()");
#endif
}
