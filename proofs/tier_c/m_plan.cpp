// Sample machine for plans: headless composite root, a plan-owning composite region with three leaves.   6 states, 2 composite forks.
#define HFSM2_ENABLE_PLANS
#define HFSM2_ENABLE_SERIALIZATION
#define HFSM2_ENABLE_TRANSITION_HISTORY
#define HFSM2_ENABLE_UTILITY_THEORY
#include "common/verif.hpp"
using namespace hfsm2; using namespace hfsm2::detail;
struct Rng { float next() { float f = nd_f32(); VASSUME(f >= 0.0f && f < 1.0f); return f; } };
#ifdef VM_PLAN_PAYLOAD
#define VM_PAYLOAD 1
using Cfg = hfsm2::Config::ManualActivation::RandomT<Rng>::PayloadT<int32_t>;      // plan tasks may carry a payload (C14)
#else
using Cfg = hfsm2::Config::ManualActivation::RandomT<Rng>;
#endif
using M = hfsm2::MachineT<Cfg>;
#define S(s) struct s
#define VM_PLANS 1
using FSM = M::PeerRoot< S(A), M::Composite<S(B), S(B1), S(B2), S(B3)> >;
#define VM_NS 6
#define VM_NC 2
#include "tier_c/spec_types.hpp"
static const VSpec VM_SPEC[VM_NS] = {
  /*0 root*/ { -1, 0, K_COMPO, 2, ST_COMPOSITE, 0 },
  /*1 A   */ {  0, 0, K_LEAF,  0, ST_NONE,     -1 },
  /*2 B   */ {  0, 1, K_COMPO, 3, ST_COMPOSITE, 1 },
  /*3 B1  */ {  2, 0, K_LEAF,  0, ST_NONE,     -1 },
  /*4 B2  */ {  2, 1, K_LEAF,  0, ST_NONE,     -1 },
  /*5 B3  */ {  2, 2, K_LEAF,  0, ST_NONE,     -1 },
};
#define VM_NCFG 4
#define VM_PLAN_REGION 1      /* region id of B (regions are numbered depth-first: root 0, B 1) */
#define VM_PLAN_HEAD 2
#include "tier_c/machine_common.hpp"
struct A : St<1> {}; struct B : St<2> {}; struct B1 : St<3> {}; struct B2 : St<4> {}; struct B3 : St<5> {};
#define VM_FOR_STATES(F_) F_(A, 1) F_(B, 2) F_(B1, 3) F_(B2, 4) F_(B3, 5)
#include "tier_c/view.hpp"
#include "tier_c/steps.hpp"
#include "tier_c/entries.hpp"
