#include <stdint.h>
#include <string.h>
#include <new>
#define HFSM2_DISABLE_TYPEINDEX
#define HFSM2_ENABLE_PLANS
#define HFSM2_ENABLE_SERIALIZATION
#define HFSM2_ENABLE_TRANSITION_HISTORY
#define HFSM2_ENABLE_UTILITY_THEORY
#define private public
#define protected public
#include <hfsm2/machine.hpp>
#undef private
#undef protected

extern "C" unsigned char verif_nondet_u8(void);
extern "C" void verif_cb(int state, int method, void* control);
extern "C" float verif_nondet_float(void);

struct Rng { float next() { return verif_nondet_float(); } };

using Config = hfsm2::Config::ManualActivation::RandomT<Rng>;
using M = hfsm2::MachineT<Config>;

#define S(s) struct s

using FSM = M::PeerRoot<
  S(A),
  M::Composite<S(B), S(B1), S(B2)>,
  M::Orthogonal<S(O), S(O1), M::Resumable<S(R), S(R1), S(R2)>>
>;

template <int ID>
struct Base : FSM::State {
  void entryGuard(GuardControl& c) { verif_cb(ID, 1, &c); }
  void enter(PlanControl& c)       { verif_cb(ID, 2, &c); }
  void reenter(PlanControl& c)     { verif_cb(ID, 3, &c); }
  void update(FullControl& c)      { verif_cb(ID, 4, &c); }
  void exitGuard(GuardControl& c)  { verif_cb(ID, 5, &c); }
  void exit(PlanControl& c)        { verif_cb(ID, 6, &c); }
};
struct A : Base<1> {}; struct B : Base<2> {}; struct B1 : Base<3> {}; struct B2 : Base<4> {};
struct O : Base<5> {}; struct O1 : Base<6> {}; struct R : Base<7> {}; struct R1 : Base<8> {}; struct R2 : Base<9> {};

extern "C" void h_update(FSM::Instance* fsm) { fsm->update(); }
extern "C" void h_change(FSM::Instance* fsm, hfsm2::StateID s) { fsm->immediateChangeTo(s); }
extern "C" void h_enter(FSM::Instance* fsm) { fsm->enter(); }
extern "C" void h_ctor(void* mem, Rng* rng) { new (mem) FSM::Instance(*rng); }
extern "C" unsigned h_size() { return sizeof(FSM::Instance); }
extern "C" void cb_change(void* c, hfsm2::StateID s) { static_cast<FSM::FullControl*>(c)->changeTo(s); }

extern "C" void __CPROVER_assume(bool);
extern "C" void __CPROVER_assert(bool, const char*);
extern "C" unsigned char nondet_uchar(); extern "C" unsigned short nondet_ushort();
static Rng g_rng;
extern "C" void harness2() {
  FSM::Instance fsm(g_rng);
  fsm.enter();
  __CPROVER_assert(fsm.isActive(1), "A active after enter");
  unsigned short d = nondet_ushort(); __CPROVER_assume(d >= 1 && d < 10);
  fsm.immediateChangeTo(d);
  __CPROVER_assert(fsm.isActive(d), "destination active");
}
extern "C" void harness3() {
  FSM::Instance fsm(g_rng);
  fsm.enter();
  __CPROVER_assert(fsm.isActive(1), "A active after enter");
  fsm.immediateChangeTo(8);
  __CPROVER_assert(fsm.isActive(8), "destination active");
  __CPROVER_assert(fsm.isActive(6), "O1 active");
  __CPROVER_assert(!fsm.isActive(1), "A inactive");
}
extern "C" void harness4() {
  FSM::Instance fsm(g_rng);
  __CPROVER_assert(fsm._core.registry.stateParents[1].forkId == 1, "t1");
  __CPROVER_assert(fsm._core.registry.stateParents[1].prong == 0, "t2");
  __CPROVER_assert(fsm._core.registry.stateParents[9].forkId == 3, "t3");
  __CPROVER_assert(fsm._core.registry.compoActive[0] == 255, "t4");
  __CPROVER_assert(!fsm._core.registry.isActive(1), "t5");
}
extern "C" void harness5() {
  FSM::Instance fsm(g_rng);
  fsm.enter();
  __CPROVER_assert(fsm._core.registry.compoActive[0] == 0, "e1");
  __CPROVER_assert(fsm._core.registry.compoActive[1] == 255, "e2");
  __CPROVER_assert(fsm._core.registry.isActive(1), "e3");
}
extern "C" void harness6() {
  FSM::Instance fsm(g_rng);
  fsm.enter();
  fsm.changeTo(8);
  __CPROVER_assert(fsm._core.requests.count() == 1, "q1");
  __CPROVER_assert(fsm._core.requests[0].destination == 8, "q2");
  __CPROVER_assert(fsm._core.requests[0].type == hfsm2::TransitionType::CHANGE, "q3");
  hfsm2::detail::Parent p = fsm._core.registry.stateParents[fsm._core.requests[0].destination];
  __CPROVER_assert(p.forkId == 3 && p.prong == 0, "q4");
  bool b = (bool) p;
  __CPROVER_assert(b, "q5");
  p = fsm._core.registry.forkParent(p.forkId);
  __CPROVER_assert(p.forkId == -1 && p.prong == 1, "q6");
  p = fsm._core.registry.forkParent(p.forkId);
  __CPROVER_assert(p.forkId == 1 && p.prong == 2, "q7");
  p = fsm._core.registry.forkParent(p.forkId);
  __CPROVER_assert(!(bool)p, "q8");
}
extern "C" void harness7() {
  FSM::Instance fsm(g_rng);
  fsm.enter();
  fsm.immediateChangeTo(8);
  fsm.update();
  unsigned n = 0;
  n += fsm.isActive(1); n += fsm.isActive(2); n += fsm.isActive(5);
  __CPROVER_assert(n == 1, "exactly one top-level sub-state active");
  __CPROVER_assert(fsm.isActive(5) == fsm.isActive(6), "O active iff O1 active");
  __CPROVER_assert(fsm.isActive(5) == (fsm.isActive(8) != fsm.isActive(9)), "O active iff exactly one of R1,R2");
}
static bool cfg_wf(const FSM::Instance& f) {
  const auto& r = f._core.registry;
  // root(0): prongs A=0,B=1,O=2 ; B(1): B1,B2 ; R(2): R1,R2
  if (r.compoActive[0] > 2) return false;
  if ((r.compoActive[0] == 1) != (r.compoActive[1] != 255)) return false;
  if (r.compoActive[1] != 255 && r.compoActive[1] > 1) return false;
  if ((r.compoActive[0] == 2) != (r.compoActive[2] != 255)) return false;
  if (r.compoActive[2] != 255 && r.compoActive[2] > 1) return false;
  for (int i = 0; i < 3; ++i) if (r.compoRequested[i] != 255) return false;
  if (r.compoResumable[0] != 255 && r.compoResumable[0] > 2) return false;
  if (r.compoResumable[1] != 255 && r.compoResumable[1] > 1) return false;
  if (r.compoResumable[2] != 255 && r.compoResumable[2] > 1) return false;
  return true;
}
extern "C" unsigned char nondet_uchar();
extern "C" void harness8() {
  FSM::Instance fsm(g_rng);
  auto& r = fsm._core.registry;
  for (int i = 0; i < 3; ++i) { r.compoActive[i] = nondet_uchar(); r.compoResumable[i] = nondet_uchar(); }
  __CPROVER_assume(cfg_wf(fsm));
  const unsigned char a0 = r.compoActive[0], a1 = r.compoActive[1], a2 = r.compoActive[2], r1 = r.compoResumable[1], r2 = r.compoResumable[2];
  fsm.exit();
  __CPROVER_assert(r.compoActive[0] == 255 && r.compoActive[1] == 255 && r.compoActive[2] == 255, "all regions inactive after exit");
  fsm.enter();
  __CPROVER_assert(r.compoActive[0] == 0 && r.compoActive[1] == 255 && r.compoActive[2] == 255, "re-entered in initial configuration");
}
#ifndef DEST
#define DEST 8
#endif
extern "C" void harness9() {
  FSM::Instance fsm(g_rng);
  auto& r = fsm._core.registry;
  for (int i = 0; i < 3; ++i) { r.compoActive[i] = nondet_uchar(); r.compoResumable[i] = nondet_uchar(); }
  __CPROVER_assume(cfg_wf(fsm) && r.compoActive[0] != 255);
  fsm.immediateChangeTo(DEST);
  __CPROVER_assert(cfg_wf(fsm) && r.compoActive[0] != 255, "C01: configuration well-formed after transition");
  __CPROVER_assert(fsm.isActive(DEST), "C02: destination active");
  __CPROVER_assert(fsm._core.requests.count() == 0, "queue drained");
}
