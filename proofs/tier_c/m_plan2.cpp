// Sample machine for nested plans: a plan-owning region inside a plan-owning region.   7 states, 3 composite forks.
#define HFSM2_ENABLE_PLANS
#define HFSM2_ENABLE_SERIALIZATION
#define HFSM2_ENABLE_TRANSITION_HISTORY
#define HFSM2_ENABLE_UTILITY_THEORY
#include "common/verif.hpp"
using namespace hfsm2; using namespace hfsm2::detail;
struct Rng { float next() { float f = nd_f32(); VASSUME(f >= 0.0f && f < 1.0f); return f; } };
using Cfg = hfsm2::Config::ManualActivation::RandomT<Rng>;
using M = hfsm2::MachineT<Cfg>;
#define S(s) struct s
#define VM_PLANS 1
// nested plan-owning regions: B owns a plan, so does N inside it
using FSM = M::PeerRoot< S(A), M::Composite<S(B), S(B1), M::Composite<S(N), S(N1), S(N2)>> >;
#define VM_NS 7
#define VM_NC 3
#include "tier_c/spec_types.hpp"
static const VSpec VM_SPEC[VM_NS] = {
  /*0 root*/ { -1, 0, K_COMPO, 2, ST_COMPOSITE, 0 },
  /*1 A   */ {  0, 0, K_LEAF,  0, ST_NONE,     -1 },
  /*2 B   */ {  0, 1, K_COMPO, 2, ST_COMPOSITE, 1 },
  /*3 B1  */ {  2, 0, K_LEAF,  0, ST_NONE,     -1 },
  /*4 N   */ {  2, 1, K_COMPO, 2, ST_COMPOSITE, 2 },
  /*5 N1  */ {  4, 0, K_LEAF,  0, ST_NONE,     -1 },
  /*6 N2  */ {  4, 1, K_LEAF,  0, ST_NONE,     -1 },
};
#define VM_NCFG 4
#define VM_PLAN_REGION 2      /* inner plan-owning region N (regions: root 0, B 1, N 2) */
#define VM_PLAN_HEAD 4
#define VM_OUTER_REGION 1
#define VM_OUTER_HEAD 2
#define VM_NESTED_PLANS 1
#include "tier_c/machine_common.hpp"
struct A : St<1> {}; struct B : St<2> {}; struct B1 : St<3> {}; struct N : St<4> {}; struct N1 : St<5> {}; struct N2 : St<6> {};
#define VM_FOR_STATES(F_) F_(A, 1) F_(B, 2) F_(B1, 3) F_(N, 4) F_(N1, 5) F_(N2, 6)
#include "tier_c/view.hpp"
#include "tier_c/steps.hpp"
#include "tier_c/entries.hpp"
