#include <hfsm2/machine.hpp>
#include <stdio.h>
using M = hfsm2::MachineT<hfsm2::Config>;
#define S(s) struct s
using FSM = M::PeerRoot< M::Composite<S(R1), M::Composite<S(R2), S(Y0), S(Y)>, S(R1b)>, S(Z) >;
struct R1 : FSM::State {}; struct R2 : FSM::State {}; struct Y0 : FSM::State {}; struct Y : FSM::State {}; struct R1b : FSM::State {}; struct Z : FSM::State {};
int main() {
  FSM::Instance fsm;
  printf("initial: Y0=%d\n", fsm.isActive<Y0>());
  fsm.changeTo<Z>(); fsm.changeTo<Y>(); fsm.update();
  printf("after changeTo<Z>; changeTo<Y>: Z=%d Y=%d Y0=%d R1=%d\n", fsm.isActive<Z>(), fsm.isActive<Y>(), fsm.isActive<Y0>(), fsm.isActive<R1>());
  FSM::Instance f2;
  f2.changeTo<Y>(); f2.changeTo<Z>(); f2.update();
  printf("after changeTo<Y>; changeTo<Z>: Z=%d Y=%d\n", f2.isActive<Z>(), f2.isActive<Y>());
}
