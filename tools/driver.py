#!/usr/bin/env python3
"""
/verif/check driver: rebuild from /repo's working tree -> lower (clang IR -> SROA -> ll2c -> C) ->
layout guard -> translation validation -> CBMC jobs (16 parallel) -> classification against
known findings -> native replay of counterexamples -> evidence.          (DESIGN.md sections 2, 6, 8)

Exit codes: 0 = every obligation of the property discharged (known findings printed as KNOWN-FINDING)
            1 = VIOLATION (an obligation that is not a listed finding fails)
            2 = undecided: tool limit (time-out, lowering abort, renamed carrier function, vacuous harness)
"""
import sys, os, re, json, subprocess, time, shutil, tempfile, hashlib, argparse, concurrent.futures, threading, importlib.util

VERIF = os.path.dirname(os.path.dirname(os.path.abspath(__file__)))
REPO = os.environ.get('VERIF_REPO', '/repo')
TOOLS = os.path.join(VERIF, 'tools')
PROOFS = os.path.join(VERIF, 'proofs')
CLANG_INC = '/usr/lib/llvm-14/lib/clang/14.0.6/include'
NCPU = int(os.environ.get('VERIF_JOBS', '16'))

# no --conversion-check: every integer conversion in the lowered C is an LLVM trunc/zext/sext (exactly defined); the only conversions with
# undefined behaviour, fptosi/fptoui out of range, get an explicit range obligation from ll2c
SAFETY_FLAGS = ['--bounds-check', '--pointer-check', '--pointer-overflow-check', '--signed-overflow-check',
                '--undefined-shift-check', '--div-by-zero-check']

class ToolLimit(Exception):
    pass

def sh(cmd, timeout=None, cwd=None, env=None, memlimit_gb=None):
    """run a command in its own process group; on time-out the whole group is killed (cbmc leaves its SMT solver child behind otherwise)"""
    import signal
    t0 = time.time()
    def pre():
        os.setsid()
        if memlimit_gb:
            import resource
            lim = int(memlimit_gb * (1 << 30))
            resource.setrlimit(resource.RLIMIT_AS, (lim, lim))
    p = subprocess.Popen(cmd, stdout=subprocess.PIPE, stderr=subprocess.PIPE, cwd=cwd, env=env, preexec_fn=pre)
    try:
        o, e = p.communicate(timeout=timeout)
        return p.returncode, o.decode('utf-8', 'replace'), e.decode('utf-8', 'replace'), time.time() - t0
    except subprocess.TimeoutExpired:
        try: os.killpg(p.pid, signal.SIGKILL)
        except Exception: pass
        o, e = p.communicate()
        return -9, (o or b'').decode('utf-8', 'replace'), 'TIMEOUT after %ss' % timeout, time.time() - t0

def load_jobs():
    spec = importlib.util.spec_from_file_location('jobs', os.path.join(PROOFS, 'jobs.py'))
    m = importlib.util.module_from_spec(spec); spec.loader.exec_module(m)
    return m.JOBS

KF_OBLIGATIONS = []
def load_findings():
    p = os.path.join(VERIF, 'known_findings.json')
    if not os.path.exists(p): return []
    return json.load(open(p)).get('findings', [])

def demangle(names):
    if not names: return {}
    p = subprocess.run(['c++filt'], input='\n'.join(names).encode(), stdout=subprocess.PIPE)
    out = p.stdout.decode().split('\n')
    return dict(zip(names, out))

# ------------------------------------------------------------------------------------------ TU build

class TU:
    """one lowered translation unit: (source file, defines, lowering options, contracts)"""
    def __init__(self, scratch, tu, defs, sroa=True, contracts=None, flavour='single', hfsm_assert=True):
        self.tu = tu; self.defs = dict(defs or {}); self.sroa = sroa; self.contracts = contracts; self.flavour = flavour
        self.hfsm_assert = hfsm_assert
        key = json.dumps([tu, sorted(self.defs.items()), sroa, contracts, flavour, hfsm_assert])
        self.key = hashlib.sha1(key.encode()).hexdigest()[:12]
        self.dir = os.path.join(scratch, 'tu_' + self.key)
        self.lock = threading.Lock()
        self.built = False; self.error = None
        self.aliases = {}; self.functions = []; self.times = {}
    def dflags(self):
        fl = ['-D%s=%s' % (k, v) if v is not None else '-D%s' % k for k, v in sorted(self.defs.items())]
        fl += ['-DHFSM2_VERIF']
        if self.hfsm_assert: fl += ['-DHFSM2_ENABLE_ASSERT']
        return fl
    def incflags(self):
        inc = os.path.join(REPO, 'include') if self.flavour == 'single' else os.path.join(REPO, 'development')
        fl = ['-I' + inc, '-I' + PROOFS]
        if self.flavour != 'single': fl += ['-DVERIF_DEV_FLAVOUR']
        return fl
    def clang_ir(self, target, out, optnone_off=True):
        cmd = ['clang++-14', '-target', target, '-std=c++11', '-O0', '-fno-discard-value-names', '-fno-exceptions', '-fno-rtti',
               '-ffreestanding', '-nostdinc', '-nostdinc++', '-isystem', CLANG_INC, '-I' + os.path.join(TOOLS, 'stubinc'),
               '-Wno-everything', '-S', '-emit-llvm'] + self.incflags() + self.dflags() + [os.path.join(PROOFS, self.tu), '-o', out]
        if optnone_off: cmd[5:5] = ['-Xclang', '-disable-O0-optnone']
        return sh(cmd, timeout=600)
    def build(self):
        with self.lock:
            if self.built: return
            self.built = True
            try:
                self._build()
            except ToolLimit as e:
                self.error = str(e)
    def _build(self):
        os.makedirs(self.dir, exist_ok=True)
        d = self.dir
        rc, o, e, t = self.clang_ir('wasm64-unknown-unknown', d + '/t0.ll')
        self.times['clang'] = t
        if rc != 0: raise ToolLimit('clang++ failed on %s %s:\n%s' % (self.tu, self.defs, e[-3000:]))
        # layout guard (DESIGN 2.2 item 1): record types must be identical on the production target
        rc, o, e, t = self.clang_ir('x86_64-unknown-linux-gnu', d + '/x86.ll')
        if rc != 0: raise ToolLimit('clang++ (x86-64 layout guard) failed: ' + e[-2000:])
        self.layout_types = self.layout_guard(d + '/t0.ll', d + '/x86.ll')
        os.remove(d + '/x86.ll')
        if self.sroa:
            rc, o, e, t = sh(['opt-14', '-S', '-passes=function(sroa)', d + '/t0.ll', '-o', d + '/t.ll'], timeout=600)
            if rc != 0: raise ToolLimit('opt sroa failed: ' + e[-2000:])
        else:
            shutil.copy(d + '/t0.ll', d + '/t.ll')
        cmd = [sys.executable, os.path.join(TOOLS, 'll2c.py'), d + '/t.ll', d + '/t.c', '--aliases', d + '/aliases.txt']
        if self.contracts: cmd += ['--contracts', os.path.join(VERIF, self.contracts)]
        rc, o, e, t = sh(cmd, timeout=600)
        self.times['ll2c'] = t
        if rc != 0: raise ToolLimit('ll2c aborted on %s: %s' % (self.tu, e[-3000:]))
        m = re.search(r'(\d+) functions lowered', o); self.nfuncs = int(m.group(1)) if m else 0
        for ln in open(d + '/aliases.txt'):
            a, c = ln.split(); self.aliases[a] = c
        self.functions = re.findall(r'^define [^@]*@"?([^"(]+)"?\(', open(d + '/t.ll').read(), re.M)
        self.demangled = demangle(self.functions)
    def layout_guard(self, a, b):
        def types(p):
            r = {}
            for ln in open(p):
                m = re.match(r'^(%\S+|%"[^"]+") = type (.*)$', ln)
                if m: r[m.group(1)] = m.group(2).strip()
            return r
        ta, tb = types(a), types(b)
        common = set(ta) & set(tb)
        diff = [k for k in common if ta[k] != tb[k]]
        # ABI-only helper types (coerced aggregates) exist on one side only; record types used by the program exist on both
        if diff:
            raise ToolLimit('layout guard: record types differ between wasm64 and x86-64: ' + ', '.join(diff[:5]))
        return len(common)
    def gb(self, entry=None, extra_defs=()):
        """goto binary (cached per entry for dfcc, shared otherwise)"""
        name = 'all' if entry is None else entry
        out = os.path.join(self.dir, 'gb_%s.gb' % name)
        with self.lock:
            if os.path.exists(out): return out
            cmd = ['goto-cc', '-DLL2C_CPROVER', '-DVERIF_TRACE_HAVOC'] + list(extra_defs) + ['-o', out, self.dir + '/t.c', os.path.join(TOOLS, 'support_cbmc.c')]
            if entry: cmd += ['--function', entry]
            rc, o, e, t = sh(cmd, timeout=600)
            if rc != 0: raise ToolLimit('goto-cc failed: ' + (o + e)[-3000:])
            return out
    def native(self, kind, entry, key=None):
        """native executables for translation validation ('lowered': gcc on the lowered C; 'real': g++ on the C++ TU)
        and replay ('replay': g++ with sanitizers on the C++ TU)"""
        out = os.path.join(self.dir, 'native_%s_%s%s' % (kind, entry, '' if key is None else '_' + '_'.join(str(k) for k in key)))
        kdefs = []
        if key is not None:
            ks = list(key) + [0] * (8 - len(key))
            kdefs = ['-DVERIF_KEYS'] + ['-DVERIF_KEYS_%d=%d' % (i, k) for i, k in enumerate(ks)]
        with self.lock:
            if os.path.exists(out): return out
            rt = os.path.join(TOOLS, 'native_rt.cpp')
            if kind == 'lowered':
                rc, o, e, t = sh(['gcc', '-O1', '-w', '-c', self.dir + '/t.c', '-o', self.dir + '/t_native.o'], timeout=900)
                if rc != 0: raise ToolLimit('gcc on lowered C failed: ' + e[-3000:])
                cmd = ['g++', '-O1', '-w', '-DVERIF_ENTRY=' + entry, rt, self.dir + '/t_native.o', '-o', out]
            else:
                san = ['-fsanitize=address,undefined', '-fno-sanitize-recover=undefined', '-g'] if kind == 'replay' else ['-O1']
                cmd = ['g++', '-std=c++11', '-w', '-DVERIF_NATIVE', '-DVERIF_ENTRY=' + entry] + kdefs + san + self.incflags() + self.dflags() + \
                      [os.path.join(PROOFS, self.tu), rt, '-o', out]
            rc, o, e, t = sh(cmd, timeout=900)
            if rc != 0: raise ToolLimit('native build (%s) failed: %s' % (kind, e[-3000:]))
            return out

# ------------------------------------------------------------------------------------------ CBMC job

def parse_cbmc_json(text):
    try:
        data = json.loads(text)
    except Exception:
        # truncated output (time-out): try to salvage
        return None, [], ''
    results = None; msgs = []; status = ''
    for el in data:
        if 'result' in el: results = el['result']
        if 'messageText' in el: msgs.append(el['messageText'])
        if 'cProverStatus' in el: status = el['cProverStatus']
    return results, msgs, status

def classify_label(desc, prop_name, contract_prop=None):
    """which property an obligation belongs to"""
    if contract_prop and re.match(r'^Check (ensures|requires|assigns|invariant|decreases|that .* (is assignable|is valid))', desc):
        return [contract_prop]     # obligations generated by goto-instrument --dfcc from the spliced contract clauses
    m = re.match(r'^(C\d\d)(/C\d\d)*: ', desc)
    if m:
        return re.findall(r'C\d\d', desc.split(': ')[0])
    if desc.startswith('CANARY'): return ['CANARY']
    if 'unwinding assertion' in desc or '.unwind.' in prop_name or 'recursion unwinding' in desc: return ['UNWIND']
    return ['C11']   # CBMC's own safety obligations and the lowering's structural obligations

def extract_inputs(trace):
    out = []
    for st in trace or []:
        if st.get('stepType') == 'input':
            tag = st.get('inputID'); vals = st.get('values') or []
            if not vals: continue
            v = vals[0]
            b = v.get('binary')
            if b is not None: n = int(b, 2)
            else:
                try: n = int(v.get('data'))
                except Exception: n = 1 if str(v.get('data')).lower() == 'true' else 0
            out.append((tag, n))
    return out

def race(cbmc, backends, timeout):
    """portfolio: the same obligations handed to several back ends; the first conclusive answer (every obligation
    SUCCESS or FAILURE, no ERROR) is taken, the others are killed"""
    t0 = time.time(); procs = []
    for b in backends:
        extra = [] if b == 'sat' else (['--sat-solver', 'cadical'] if b == 'cadical' else ['--' + b])
        procs.append((b, subprocess.Popen(cbmc + extra, stdout=subprocess.PIPE, stderr=subprocess.PIPE, preexec_fn=os.setsid)))
    outs = {}
    try:
        while time.time() - t0 < timeout and len(outs) < len(procs):
            for b, p in procs:
                if b in outs or p.poll() is None: continue
                o, e = p.communicate(); o = o.decode('utf-8', 'replace')
                outs[b] = o
                res, msgs, status = parse_cbmc_json(o)
                if res is not None and all(x.get('status') in ('SUCCESS', 'FAILURE') for x in res):
                    return p.returncode, o, '', time.time() - t0, b
            time.sleep(0.05)
        if len(outs) == len(procs):
            b = backends[0]; return 1, outs[b], 'no back end gave a conclusive answer', time.time() - t0, 'none'
        return -9, '', 'TIMEOUT', time.time() - t0, 'none'
    finally:
        for b, p in procs:
            import signal
            try: os.killpg(p.pid, signal.SIGKILL)       # the whole group: cbmc and its SMT solver child
            except Exception: pass
            if p.poll() is None: p.communicate()

def normalized_ir(path):
    out = []
    for ln in open(path):
        if ln.startswith('source_filename') or ln.startswith('; ModuleID') or ln.startswith('!') or ln.startswith('target '): continue
        out.append(ln)
    return out

def run_ir_equal(job, tu, scratch):
    """C15 flavour obligation: the proof unit compiled against include/hfsm2/machine.hpp and against development/hfsm2/machine_dev.hpp
    must give the same LLVM IR, function by function (exact; no solver involved)"""
    r = {'job': job['id'], 'obligations': [], 'error': None, 'times': {'cbmc': 0.0}, 'cmd': 'clang++ -emit-llvm (both flavours) + textual comparison of the IR'}
    other = TU(scratch, job['tu'], job.get('defs'), job.get('sroa', True), None, 'dev', job.get('hfsm_assert', True))
    other.build()
    if other.error: r['error'] = 'development flavour does not build: ' + other.error[-800:]; return r
    a = normalized_ir(tu.dir + '/t0.ll'); b = normalized_ir(other.dir + '/t0.ll')
    same = a == b
    detail = ''
    if not same:
        fa = {}; cur = None
        for src, store in ((a, 0), (b, 1)):
            cur = None
            for ln in src:
                m = re.match(r'^define [^@]*@"?([^"(]+)"?\(', ln)
                if m: cur = m.group(1)
                if cur: fa.setdefault(cur, [[], []])[store].append(ln)
        diff = [k for k, v in fa.items() if v[0] != v[1]]
        detail = ', '.join(list(demangle(diff[:5]).values()))[:600]
    r['obligations'].append({'name': 'ir_equal', 'desc': 'C15: single header and development headers lower to identical code for this proof unit' + ('' if same else ' [differs in: %s]' % detail),
                             'status': 'SUCCESS' if same else 'FAILURE', 'props': ['C15'], 'function': job['tu'], 'line': ''})
    return r

def run_job(job, tu, safety, scratch, want_trace=False, only_props=None):
    """returns dict(result list, times, error)"""
    r = {'job': job['id'], 'obligations': [], 'error': None, 'times': {}, 'cmd': ''}
    if job.get('mode') == 'ir_equal':
        return run_ir_equal(job, tu, scratch)
    try:
        entry = job['entry']
        flags = ['--no-standard-checks', '--drop-unused-functions', '--object-bits', str(job.get('objbits', 12)),
                 '--unwind', str(job.get('unwind', 8)), '--unwinding-assertions', '--json-ui', '--verbosity', '6']
        for k, v in (job.get('unwindset') or {}).items(): flags += ['--unwindset', '%s:%d' % (k, v)]
        if safety: flags += SAFETY_FLAGS
        flags += job.get('cbmc_flags', [])
        if job.get('backend') in ('cvc5', 'z3'): flags += ['--' + job['backend']]
        if job.get('backend') == 'cadical': flags += ['--sat-solver', 'cadical']
        if job.get('paths'): flags += ['--paths', 'lifo']
        if want_trace: flags += ['--trace']
        if job.get('mode') == 'dfcc':
            d = job['dfcc']
            gb0 = tu.gb(entry)
            gb1 = os.path.join(tu.dir, 'dfcc_%s.gb' % job['id'].replace('/', '_'))
            cmd = ['goto-instrument', '--dfcc', entry]
            for a in d.get('enforce', []):
                if a not in tu.aliases: raise ToolLimit('contract alias %s not spliced' % a)
                cmd += ['--enforce-contract', tu.aliases[a]]
            for a in d.get('replace', []):
                if a not in tu.aliases: raise ToolLimit('contract alias %s not spliced' % a)
                cmd += ['--replace-call-with-contract', tu.aliases[a]]
            if d.get('loop_contracts'): cmd += ['--apply-loop-contracts']
            cmd += [gb0, gb1]
            rc, o, e, t = sh(cmd, timeout=job.get('timeout', 600))
            r['times']['goto-instrument'] = t
            if rc != 0: raise ToolLimit('goto-instrument --dfcc failed: ' + (o + e)[-2000:])
            cbmc = ['cbmc', gb1] + flags
            r['cmd'] = ' '.join(cmd[:-2] + ['<in.gb> <out.gb> &&'] + ['cbmc', '<out.gb>'] + flags)
        else:
            gb = tu.gb()
            if job.get('key') is not None:
                # the case key is linked in as constants ck0..ck7 (folded by CBMC's constant propagation)
                ks = list(job['key']) + [0] * (8 - len(job['key']))
                kc = os.path.join(tu.dir, 'key_%s.c' % re.sub(r'[^A-Za-z0-9_.-]', '_', job['id']))
                open(kc, 'w').write('#include <stdint.h>\n' + ''.join('uint32_t G_ck%d = %dU;\n' % (i, k & 0xffffffff) for i, k in enumerate(ks)))
                gbk = kc[:-2] + '.gb'
                rc, o, e, t = sh(['goto-cc', gb, kc, '-o', gbk], timeout=300)
                if rc != 0: raise ToolLimit('goto-cc (key link) failed: ' + (o + e)[-1500:])
                gb = gbk
            cbmc = ['cbmc', gb, '--function', entry] + flags
            r['cmd'] = ' '.join(['cbmc', '<lowered.gb>', '--function', entry] + flags)
        if job.get('backend') == 'portfolio':
            rc, o, e, t, won = race(cbmc, job.get('portfolio', ['sat', 'cvc5', 'z3']), job.get('timeout', 600))
            r['backend_used'] = won
        elif want_trace:
            # traces of machine jobs run to gigabytes of JSON: cbmc writes to a file and jq keeps only the input steps (bounded memory in this process)
            rawf = os.path.join(scratch, 'trace_%s_%d.json' % (re.sub(r'[^A-Za-z0-9_.-]', '_', job['id'])[:80], os.getpid()))
            t0_ = time.time()
            with open(rawf, 'wb') as fh:
                import signal
                pr = subprocess.Popen(cbmc, stdout=fh, stderr=subprocess.DEVNULL, preexec_fn=os.setsid)
                try: rc = pr.wait(timeout=job.get('timeout', 600) * 2)
                except subprocess.TimeoutExpired:
                    try: os.killpg(pr.pid, signal.SIGKILL)
                    except Exception: pass
                    pr.wait(); rc = -9
            t = time.time() - t0_; e = ''
            flt = '[.[] | if .result then {result: [.result[] | {property, description, status, sourceLocation, trace: (if .trace then [.trace[] | select(.stepType == "input") | {stepType, inputID, values}] else null end)}]} else (if .messageText then {messageText} elif .cProverStatus then {cProverStatus} else empty end) end]'
            jr = subprocess.run(['jq', '-c', flt, rawf], stdout=subprocess.PIPE, stderr=subprocess.PIPE)
            o = jr.stdout.decode('utf-8', 'replace') if jr.returncode == 0 else ''
            try: os.remove(rawf)
            except OSError: pass
            r['backend_used'] = job.get('backend', 'sat')
        else:
            rc, o, e, t = sh(cbmc, timeout=job.get('timeout', 600), memlimit_gb=job.get('mem_gb', 12))
            r['backend_used'] = job.get('backend', 'sat')
        r['times']['cbmc'] = t
        if rc == -9:
            raise ToolLimit('cbmc time-out after %ss' % job.get('timeout', 600))
        results, msgs, status = parse_cbmc_json(o)
        if results is None:
            raise ToolLimit('cbmc gave no result (rc=%s): %s' % (rc, (e or o)[-1500:]))
        st = 0.0
        for m_ in msgs:
            mm = re.match(r'Runtime (Solver|decision procedure): ([0-9.]+)s', m_)
            if mm: st += float(mm.group(2))
            if 'ignoring' in m_ and 'forall' in m_: raise ToolLimit('back end ignored a quantifier: ' + m_)
        r['times']['solver'] = st
        for res in results:
            desc = res.get('description', ''); name = res.get('property', '')
            props_ = classify_label(desc, name, job['props'][0] if job.get('mode') == 'dfcc' else None)
            if job.get('count_all_as') and not set(props_) & {'CANARY', 'UNWIND'} and not any(k in desc for k in KF_OBLIGATIONS): props_ = props_ + [job['count_all_as']]   # (obligations that are listed findings of their own property are not re-counted)   # C15: the same contracts under another configuration / flavour
            if desc.startswith('C11: HFSM2_ASSERT') and job.get('assert_props'): props_ = props_ + list(job['assert_props'])   # the library's own assertions also decide these properties in this job
            ob = {'name': name, 'desc': desc, 'status': res.get('status'), 'props': props_,
                  'function': (res.get('sourceLocation') or {}).get('function', ''), 'line': (res.get('sourceLocation') or {}).get('line', '')}
            if res.get('status') == 'FAILURE' and res.get('trace') is not None:
                ob['inputs'] = extract_inputs(res['trace'])
            if ob['status'] == 'SUCCESS' and props_ == ['C11']:
                # CBMC's own safety obligations run to tens of thousands per job: discharged ones are counted, not kept (bounded memory)
                r['bulk_ok'] = r.get('bulk_ok', 0) + 1
                if len(r.setdefault('bulk_samples', [])) < 2: r['bulk_samples'].append(ob)
                continue
            r['obligations'].append(ob)
        if job.get('mode') == 'dfcc':
            # vacuity guard: an enforced contract whose function the harness never calls generates no postcondition obligation and would pass silently
            alld = [res.get('description', '') for res in results]
            for a in job['dfcc'].get('enforce', []):
                if not any(d_.startswith('Check ensures clause of contract') and tu.aliases[a] in d_ for d_ in alld):
                    raise ToolLimit('vacuous enforcement: no "Check ensures clause" obligation for contract %s (the entry point does not call the function under contract)' % a)
    except ToolLimit as ex:
        r['error'] = str(ex)
    return r

# ------------------------------------------------------------------------------------------ main check

def finding_matches(f, job, ob):
    if f.get('tag') and f['tag'] not in job.get('tags', []): return False      # case keys for which the finding's delimiting predicate holds (computed in proofs/jobs.py)
    return re.search(f['job'], job['id']) and f['obligation'] in ob['desc']

def native_replay(tu, job, ob, outdir):
    """replay the counterexample's input list on the *real* C++ (g++, x86-64, untouched header, ASan+UBSan)"""
    try:
        exe = tu.native('replay', job['entry'], job.get('key'))
    except ToolLimit as e:
        return 'replay-build-failed', str(e)
    inp = os.path.join(outdir, 'inputs.txt')
    with open(inp, 'w') as f:
        for tag, n in ob.get('inputs', []): f.write('%s %d\n' % (tag, n))
    env = dict(os.environ); env.update(VERIF_MODE='replay', VERIF_INPUTS=inp, ASAN_OPTIONS='detect_leaks=0')
    rc, o, e, t = sh([exe], timeout=120, env=env)
    txt = (o + e)[-4000:]
    want = ob['desc']
    if rc == 1 and 'REPLAY-CONFIRMED' in o:
        got = o.split('REPLAY-CONFIRMED: ')[1].split('\n')[0]
        return ('confirmed' if got == want else 'confirmed-other:' + got), txt
    if 'AddressSanitizer' in e or 'runtime error' in e:
        return 'confirmed-sanitizer', txt
    if rc == 3: return 'infeasible-natively', txt
    if rc == 0: return 'not-reproduced', txt
    return 'crashed(rc=%d)' % rc, txt

def translation_validation(tu, seeds):
    """DESIGN 2.3: lowered C (gcc) vs real C++ (g++, production target), same pseudo-random script"""
    a = tu.native('lowered', 'verif_drive'); b = tu.native('real', 'verif_drive')
    res = []
    for s in seeds:
        env = dict(os.environ); env.update(VERIF_MODE='drive', VERIF_SEED=str(s))
        ra = sh([a], timeout=120, env=env); rb = sh([b], timeout=120, env=env)
        if ra[0] != 0 or rb[0] != 0:
            raise ToolLimit('translation validation: driver crashed (lowered rc=%d, real rc=%d) %s %s' % (ra[0], rb[0], ra[2][-500:], rb[2][-500:]))
        if ra[1] != rb[1]:
            raise ToolLimit('translation validation: lowered C and real C++ disagree for seed %s: %s vs %s' % (s, ra[1].strip(), rb[1].strip()))
        res.append(ra[1].strip())
    return res

def main(argv):
    ap = argparse.ArgumentParser()
    ap.add_argument('prop')
    ap.add_argument('--tier', default=os.environ.get('VERIF_TIER', 'quick'))
    ap.add_argument('--replay')
    ap.add_argument('--jobs', help='regex: only jobs whose id matches (debugging; no evidence written)')
    ap.add_argument('--keep', action='store_true')
    ap.add_argument('--no-tv', action='store_true')
    ap.add_argument('--list', action='store_true')
    ap.add_argument('--all-props', action='store_true', help='debugging: report failed obligations of every property in the selected jobs')
    a = ap.parse_args(argv)
    prop = a.prop
    seed = int(os.environ.get('VERIF_SEED', '1') or 1)
    t_start = time.time()
    jobs = [j for j in load_jobs() if prop in j['props'] and (a.tier == 'thorough' or (j.get('tier', 'quick') == 'quick' and (j.get('quick_for') is None or prop in j['quick_for'])))]
    if a.all_props: jobs = [j for j in load_jobs() if a.tier == 'thorough' or j.get('tier', 'quick') == 'quick']
    # thorough tier: families of case keys with hundreds of members (substitution, callback-issued requests, triples, two-round
    # histories) are SAMPLED per VERIF_SEED so that the tier finishes in under an hour per property; VERIF_THOROUGH_CAP=0 runs the
    # complete key space (hours per property).  Jobs of the quick tier are always kept.
    sampled = {}
    cap = int(os.environ.get('VERIF_THOROUGH_CAP', '40') or 0)
    if a.tier == 'thorough' and cap > 0 and not a.all_props:
        import random
        def fam(i):
            m = re.match(r'^(C\.[a-z_0-9]+\.[a-z0-9_]+)', i) or re.match(r'^([A-Z][0-9]*\.[a-z_0-9]+)', i)
            return m.group(1) if m else i
        def is_quick(j): return j.get('tier', 'quick') == 'quick' and (j.get('quick_for') is None or prop in j['quick_for'])
        groups = {}
        for j in jobs:
            if not is_quick(j): groups.setdefault(fam(j['id']), []).append(j)
        drop = set()
        for f, js in groups.items():
            if len(js) > cap:
                rnd = random.Random('%s/%s/%d' % (prop, f, seed))
                keep = set(id(x) for x in rnd.sample(js, cap))
                drop |= set(id(x) for x in js if id(x) not in keep)
                sampled[f] = [cap, len(js)]
        jobs = [j for j in jobs if id(j) not in drop]
    a.sampled = sampled
    if a.jobs: jobs = [j for j in jobs if re.search(a.jobs, j['id'])]
    if a.list:
        for j in jobs: print(j['id'], j['tu'], j.get('defs'), j['entry'])
        return 0
    if a.replay:
        return do_replay(a.replay)
    if not jobs:
        print('no jobs for', prop); return 2
    findings = [f for f in load_findings() if f['property'] == prop and f.get('status', 'open') == 'open']
    KF_OBLIGATIONS[:] = [f['obligation'] for f in load_findings() if f.get('status', 'open') == 'open']
    scratch = tempfile.mkdtemp(prefix='verif_%s_' % prop, dir=os.environ.get('VERIF_SCRATCH', '/var/tmp'))
    rc = 2
    try:
        rc = run_check(prop, a, jobs, findings, scratch, seed, t_start)
    finally:
        if not a.keep: shutil.rmtree(scratch, ignore_errors=True)
        else: print('scratch kept at', scratch)
    return rc

def run_check(prop, a, jobs, findings, scratch, seed, t_start):
    tus = {}
    def tu_of(j):
        t = TU(scratch, j['tu'], j.get('defs'), j.get('sroa', True), (j.get('dfcc') or {}).get('contracts'), j.get('flavour', 'single'), j.get('hfsm_assert', True))
        return tus.setdefault(t.key, t)
    for j in jobs: j['_tu'] = tu_of(j)
    problems = []     # tool limits -> exit 2
    with concurrent.futures.ThreadPoolExecutor(NCPU) as ex:
        list(ex.map(lambda t: t.build(), tus.values()))
    for t in tus.values():
        if t.error: problems.append(t.error)
    # carriers: the functions under contract must exist in the lowered closure (a rename must not pass silently)
    carriers = {}
    for j in jobs:
        t = j['_tu']
        if t.error: continue
        dm = list(t.demangled.values())
        for pat in j.get('carriers', []):
            hits = [d for d in dm if re.search(pat, d)]
            if not hits: problems.append('carrier function /%s/ of %s not found in lowered code (renamed or no longer instantiated)' % (pat, j['tu']))
            for h in hits[:3]: carriers[h] = carriers.get(h, 0) + 1
    # translation validation per TU that exports verif_drive
    tv = []
    if not a.no_tv:
        def do_tv(t):
            if t.error or not any(f == 'verif_drive' for f in t.functions): return None
            try:
                return (t.tu, t.defs, translation_validation(t, [seed, seed + 1, seed + 2]))
            except ToolLimit as e:
                problems.append(str(e)); return None
        with concurrent.futures.ThreadPoolExecutor(NCPU) as ex:
            tv = [x for x in ex.map(do_tv, tus.values()) if x]
    # CBMC jobs
    safety = (prop == 'C11')
    def do_job(j):
        if j['_tu'].error: return {'job': j['id'], 'obligations': [], 'error': 'TU not built', 'times': {}, 'cmd': ''}
        return run_job(j, j['_tu'], safety or j.get('safety_always', False), scratch)
    with concurrent.futures.ThreadPoolExecutor(NCPU) as ex:
        results = list(ex.map(do_job, jobs))
    violations = []; known = []; total = 0; discharged = 0; samples = []; canaries = 0
    solver_s = 0.0; cbmc_s = 0.0
    undecided = []
    for j, r in zip(jobs, results):
        if r['error']:
            if r['error'] != 'TU not built': problems.append('job %s: %s' % (j['id'], r['error']))
            continue
        solver_s += r['times'].get('solver', 0); cbmc_s += r['times'].get('cbmc', 0)
        mine = [ob for ob in r['obligations'] if prop in ob['props'] or (a.all_props and not set(ob['props']) & {'CANARY', 'UNWIND', 'C11'})]
        can = [ob for ob in r['obligations'] if 'CANARY' in ob['props']]
        unw = [ob for ob in r['obligations'] if 'UNWIND' in ob['props']]
        fired = [ob for ob in can if ob['status'] == 'FAILURE']
        canaries += len(fired)
        # vacuity: a job whose canaries are ALL unreachable has contradictory assumptions (individual canaries may sit on
        # paths that a particular case key does not take; the first canary of every harness follows its assumptions directly)
        if can and not fired:
            problems.append('job %s: no canary is reachable (%s): the harness assumptions are contradictory (vacuous proof)' % (j['id'], '; '.join(ob['desc'] for ob in can)[:300]))
        bulk = r.get('bulk_ok', 0) if prop == 'C11' else 0
        total += bulk; discharged += bulk
        if bulk and len(samples) < 6:
            for ob in r.get('bulk_samples', [])[:1]: samples.append({'job': j['id'], 'obligation': ob['desc'], 'in': ob['function'][:120], 'status': 'discharged'})
        if not mine and not bulk and not j.get('safety_only'):
            problems.append('job %s generated no obligation for %s' % (j['id'], prop))
        for ob in unw:
            total += 1
            if ob['status'] == 'SUCCESS': discharged += 1
            elif prop == 'C11': mine.append(ob)
            else: undecided.append('job %s: unwinding assertion %s failed (loop bound exceeded): obligations beyond it are undecided' % (j['id'], ob['name']))
        for ob in mine:
            if 'UNWIND' not in ob['props']: total += 1
            if ob['status'] == 'SUCCESS':
                if 'UNWIND' not in ob['props']: discharged += 1
                if len(samples) < 6: samples.append({'job': j['id'], 'obligation': ob['desc'], 'in': ob['function'][:120], 'status': 'discharged'})
                continue
            f = next((f for f in findings if finding_matches(f, j, ob)), None)
            if f: known.append((f, j, ob))
            else: violations.append((j, ob))
    # known findings that no longer fail are simply not printed (DESIGN 6); listed in evidence
    printed = set()
    for f, j, ob in known:
        if f['id'] in printed: continue
        printed.add(f['id'])
        print('KNOWN-FINDING: property=%s %s [%s; obligation "%s" in job %s]' % (prop, f['what'], f['id'], f['obligation'], j['id']))
    rc = 0
    vio_out = []
    if violations:
        for j, ob in violations:
            print('FAILED: "%s" in job %s' % (ob['desc'], j['id']))
        # re-run the failing jobs with traces and replay natively (the first few distinct ones)
        seen = set(); traced = {}; skipped_reports = 0
        # traced re-runs of the first few failing jobs, in parallel
        first_jobs = []
        for j, ob in violations:
            if j['id'] not in [x['id'] for x in first_jobs]: first_jobs.append(j)
            if len(first_jobs) >= 6: break
        with concurrent.futures.ThreadPoolExecutor(3) as ex:
            for j, rr in zip(first_jobs, ex.map(lambda jj: run_job(jj, jj['_tu'], safety or jj.get('safety_always', False), scratch, want_trace=True), first_jobs)):
                traced[j['id']] = rr
        for j, ob in violations:
            if (j['id'], ob['desc']) in seen: continue
            seen.add((j['id'], ob['desc']))
            if len(seen) > 10 or j['id'] not in traced:
                skipped_reports += 1; continue          # reported in the FAILED list above and counted; not replayed
            rr = traced[j['id']]
            ob2 = next((o for o in rr['obligations'] if o['name'] == ob['name'] and o['status'] == 'FAILURE'), None)
            rdir = os.path.join(VERIF, 'replays', prop); os.makedirs(rdir, exist_ok=True)
            rid = re.sub(r'[^A-Za-z0-9_.-]', '_', '%s__%s' % (j['id'], ob['name']))[:150]
            rpath = os.path.join(rdir, rid + '.json')
            verdict, txt = ('no-trace', '')
            if ob2 is not None and ob2.get('inputs') is not None and not j.get('no_replay'):
                tmpd = os.path.join(scratch, 'replay_' + rid); os.makedirs(tmpd, exist_ok=True)
                verdict, txt = native_replay(j['_tu'], j, ob2, tmpd)
            rep = {'property': prop, 'job': j['id'], 'tu': j['tu'], 'defs': j.get('defs'), 'entry': j['entry'], 'obligation': ob['desc'],
                   'obligation_name': ob['name'], 'in_function': ob['function'], 'line': ob['line'],
                   'inputs': (ob2 or {}).get('inputs'), 'key': j.get('key'), 'cbmc_cmd': rr['cmd'], 'native_verdict': verdict, 'native_output': txt,
                   'flavour': j.get('flavour', 'single'), 'hfsm_assert': j.get('hfsm_assert', True)}
            json.dump(rep, open(rpath, 'w'), indent=1)
            tail = '' if verdict.startswith('confirmed') else ' no-failing-input-found'
            print('obligation failed: "%s" in job %s (native replay: %s)' % (ob['desc'], j['id'], verdict))
            print('VIOLATION property=%s replay=%s%s' % (prop, rpath, tail))
            vio_out.append({'job': j['id'], 'obligation': ob['desc'], 'replay': rpath, 'native': verdict})
        if skipped_reports: print('(%d further failed obligations are listed above as FAILED and not replayed)' % skipped_reports)
        rc = 1
    problems = list(dict.fromkeys(problems))
    for u in undecided: print('UNDECIDED:', u)
    for p in problems: print('TOOL-LIMIT:', p[:1500])
    if rc == 0 and (problems or undecided): rc = 2
    if a.jobs:
        print('debug run (%d jobs, %d obligations, %d discharged, %d canaries, cbmc %.1fs): no evidence written' % (len(jobs), total, discharged, canaries, cbmc_s))
        for j, r in zip(jobs, results): print('  ', j['id'], 'cbmc %.1fs' % r['times'].get('cbmc', 0), r['error'] or '')
        return rc
    write_evidence(prop, a.tier, seed, jobs, results, tus, carriers, tv, total, discharged, canaries, samples, known, vio_out, problems, undecided, solver_s, cbmc_s, time.time() - t_start, findings, getattr(a, 'sampled', None))
    print('%s %s: %d jobs, %d obligations, %d discharged, %d known-finding obligations, %d violations, %d canaries fired, %.0fs' %
          (prop, a.tier, len(jobs), total, discharged, len(known), len(vio_out), canaries, time.time() - t_start))
    return rc

def write_evidence(prop, tier, seed, jobs, results, tus, carriers, tv, total, discharged, canaries, samples, known, vio_out, problems, undecided, solver_s, cbmc_s, wall, findings, sampled_families=None):
    sampled_families = sampled_families or {}
    meta = {}
    mp = os.path.join(PROOFS, 'meta.json')
    common = []
    if os.path.exists(mp):
        allm = json.load(open(mp)); meta = allm.get(prop, {}); common = allm.get('_common_assumptions', [])
    bounded = [{'job': j['id'], 'bound': j['bounded']} for j in jobs if j.get('bounded')]
    kf_obl = len(known)
    ev = {
        'property_id': prop, 'tier': tier, 'seed': seed, 'level': meta.get('level', 'proof'),
        'coverage': {
            'obligations': total, 'discharged': discharged + kf_obl if False else discharged,
            'known_finding_obligations': kf_obl,
            'checker_cmd': (results[0]['cmd'] if results else '') + '   (one of %d jobs; lowering: clang++-14 -O0 -emit-llvm (wasm64) | opt -passes=function(sroa) | tools/ll2c.py | goto-cc)' % len(jobs),
            'trusted_base': meta.get('trusted_base', []) + ['clang-14 front end + wasm64 lowering', 'LLVM SROA pass', 'tools/ll2c.py (cross-checked per run by layout guard + native differential runs)', 'CBMC 6.11 + MiniSat/CaDiCaL', 'CBMC IEEE-754 model'],
            'functions_under_contract': sorted(carriers)[:80],
            'functions_under_contract_count': len(carriers),
            'jobs': [{'id': j['id'], 'mode': j.get('mode', 'harness'), 'entry': j['entry'], 'defs': j.get('defs'), 'cbmc_s': round(r['times'].get('cbmc', 0), 1),
                      'solver_s': round(r['times'].get('solver', 0), 2), 'obligations': len([o for o in r['obligations'] if prop in o['props'] or 'UNWIND' in o['props']]) + (r.get('bulk_ok', 0) if prop == 'C11' else 0),
                      'backend': r.get('backend_used', j.get('backend', 'sat')), 'engine': 'path-wise' if j.get('paths') else 'merging'} for j, r in zip(jobs, results)][:400],
            'case_keys': sorted(set(j['case_key'] for j in jobs if j.get('case_key')))[:400],
            'exhaustive': bool(meta.get('exhaustive_case_split', False)) and not sampled_families,
            'sampled_families': sampled_families,
            'bounded': bounded,
            'canaries_fired': canaries,
            'translation_validation': [{'tu': t, 'defs': d, 'hashes': h} for t, d, h in tv],
            'lowered_units': [{'tu': t.tu, 'defs': t.defs, 'functions': getattr(t, 'nfuncs', 0), 'record_types_compared': getattr(t, 'layout_types', 0)} for t in tus.values()],
            'solver_s': round(solver_s, 2), 'cbmc_s': round(cbmc_s, 1),
            'samples': samples or [{'note': 'no discharged obligation'}],
            'known_findings': [{'id': f['id'], 'what': f['what'], 'job': j['id'], 'obligation': ob['desc']} for f, j, ob in known],
            'known_findings_not_failing_now': [f['id'] for f in findings if f['id'] not in set(ff['id'] for ff, _, _ in known)],
            'violations': vio_out, 'tool_limits': problems, 'undecided': undecided,
            'explanation': meta.get('explanation', ''),
        },
        'assumptions': meta.get('assumptions', []) + common,
        'wall_s': round(wall, 1), 'violations': len(vio_out),
    }
    if ev['level'] == 'proof' and kf_obl:
        ev['coverage']['note'] = 'obligations = discharged + known_finding_obligations; the latter are genuine defects listed in known_findings.json and are NOT proved'
        ev['coverage']['obligations'] = total - kf_obl   # proved part only; the failing ones are listed separately
    os.makedirs(os.path.join(VERIF, 'evidence'), exist_ok=True)
    json.dump(ev, open(os.path.join(VERIF, 'evidence', prop + '.json'), 'w'), indent=1)

def do_replay(path):
    rep = json.load(open(path))
    scratch = tempfile.mkdtemp(prefix='verif_replay_', dir=os.environ.get('VERIF_SCRATCH', '/var/tmp'))
    try:
        tu = TU(scratch, rep['tu'], rep.get('defs'), True, None, rep.get('flavour', 'single'), rep.get('hfsm_assert', True))
        os.makedirs(tu.dir, exist_ok=True)
        ob = {'desc': rep['obligation'], 'inputs': [tuple(x) for x in (rep.get('inputs') or [])]}
        verdict, txt = native_replay(tu, {'entry': rep['entry'], 'key': rep.get('key')}, ob, tu.dir)
        print(txt); print('replay verdict:', verdict)
        return 1 if verdict.startswith('confirmed') else 0
    finally:
        shutil.rmtree(scratch, ignore_errors=True)

if __name__ == '__main__':
    sys.exit(main(sys.argv[1:]))
