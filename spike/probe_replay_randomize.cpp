#define HFSM2_DISABLE_TYPEINDEX
#define HFSM2_ENABLE_UTILITY_THEORY
#include <stdint.h>
#include <string.h>
#include <new>
#define private public
#define protected public
#define class struct
#include <hfsm2/machine.hpp>
#undef private
#undef protected
#undef class
using namespace hfsm2; using namespace hfsm2::detail;
extern "C" void __CPROVER_assume(bool);
extern "C" void __CPROVER_assert(bool, const char*);
extern "C" float verif_nondet_float(); extern "C" signed char verif_nondet_schar();
struct Rng { float next() { float f = verif_nondet_float(); __CPROVER_assume(f >= 0.0f && f < 1.0f); return f; } };
using Cfg = hfsm2::Config::ManualActivation::RandomT<Rng>;
using M = hfsm2::MachineT<Cfg>;
#define S(s) struct s
using FSM = M::RandomPeerRoot<S(A), S(B), S(C)>;
static float g_u[4]; static signed char g_r[4]; static bool g_uq[4];
template <int N> struct St : FSM::State {
  Rank rank(const Control&) { signed char r = verif_nondet_schar(); __CPROVER_assume(r >= 0 && r <= 1); g_r[N] = r; return r; }
  Utility utility(const Control&) { float u = verif_nondet_float(); __CPROVER_assume(u >= 0.0f && u <= 1000.0f); g_u[N] = u; g_uq[N] = true; return u; }
};
struct A : St<1> {}; struct B : St<2> {}; struct C : St<3> {};
static Rng g_rng;
extern "C" void proof_randomize() {
  FSM::Instance fsm(g_rng);
  FSM::Instance::TransitionSets none;
  FSM::Instance::PlanControl control{fsm._core, none};
  fsm._apex.deepRequestRandomize(control, {TransitionType::RANDOMIZE, INVALID_SHORT});
  signed char top = g_r[1]; if (g_r[2] > top) top = g_r[2]; if (g_r[3] > top) top = g_r[3];
  bool positive = false;
  for (int i = 1; i <= 3; ++i) if (g_r[i] == top && g_uq[i] && g_u[i] > 0.0f) positive = true;
  __CPROVER_assume(positive);   // documented precondition: positive top-rank sum
  __CPROVER_assert(fsm._core.registry.compoRequested[0] < 3, "C12: randomize never selects nothing");
}
