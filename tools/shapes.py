#!/usr/bin/env python3
"""
C17: the family of machine SHAPES, and - computed here, from the declaration only, by the rules of the property
statement - the identifiers, tables and counts that the library must arrive at.        (DESIGN.md 11.9)

A shape is a tree:  ('L',)                                leaf state
                    ('C', strategy, headed, [children])   composite region (strategy: C R S U N = Composite/Resumable/Selectable/Utilitarian/Random)
                    ('O', headed, [children])             orthogonal region
'headed' False = the *Peers* form: the region's head is anonymous but still occupies an identifier.

Nothing in this file reads HFSM2; the C++ side (proofs/tier_d/shape.cpp) compares what deepRegister(), stateId<>(),
regionId<>(), Control::stateId() and the published constants say against these numbers.
"""
import random

STRAT_NAMES = {'C': 'Composite', 'R': 'Resumable', 'S': 'Selectable', 'U': 'Utilitarian', 'N': 'Random'}

def L(): return ('L',)
def C(*ch, strat='C', headed=True): return ('C', strat, headed, list(ch))
def O(*ch, headed=True): return ('O', headed, list(ch))

def ceil_log2(n):
    b = 0
    while (1 << b) < n: b += 1
    return b

class Spec:
    """depth-first numbering and the derived numbers, straight from the statement of C17"""
    def __init__(self, shape):
        self.shape = shape
        self.states = []        # per state id: dict(parent, prong, kind, width, headed, region, compo, ortho)
        self.regions = []       # per region id: dict(head, size, kind)
        self.compo = []         # per composite index: head state id
        self.ortho = []         # per orthogonal index: (head state id, width, unit)
        self.units = 0
        self.prongs = 0
        self._walk(shape, -1, 0, -1)
        self.active_bits = self._active_bits(shape)
        self.resumable_bits = self._resumable_bits(shape)
    def _walk(self, node, parent, prong, parent_region):
        sid = len(self.states)
        kind = node[0]
        st = dict(parent=parent, prong=prong, kind=kind, width=0, headed=True, region=parent_region, compo=-1, ortho=-1, own_region=-1)
        self.states.append(st)
        if kind == 'L': return 1
        children = node[-1]; st['width'] = len(children); st['headed'] = node[2] if kind == 'C' else node[1]
        rid = len(self.regions); self.regions.append(dict(head=sid, size=0, kind=kind)); st['own_region'] = rid; st['region'] = rid
        if kind == 'C':
            st['compo'] = len(self.compo); self.compo.append(sid); self.prongs += len(children); st['strategy'] = node[1]
        else:
            st['ortho'] = len(self.ortho); self.ortho.append((sid, len(children), self.units)); self.units += (len(children) + 7) // 8
        size = 1
        for i, ch in enumerate(children): size += self._walk(ch, sid, i, rid)
        self.regions[rid]['size'] = size
        return size
    def _active_bits(self, node):
        # bits save() needs for the ACTIVE configuration in the worst case: an active composite region names one of its
        # `width` sub-states (ceil(log2(width)) bits) and only that sub-state's sub-tree follows; all prongs of an orthogonal region follow
        if node[0] == 'L': return 0
        if node[0] == 'C': return ceil_log2(len(node[3])) + max(self._active_bits(c) for c in node[3])
        return sum(self._active_bits(c) for c in node[2])
    def _resumable_bits(self, node):
        # every composite region stores "has a resumable sub-state" (1 bit) + which one, whether active or not
        if node[0] == 'L': return 0
        if node[0] == 'C': return 1 + ceil_log2(len(node[3])) + sum(self._resumable_bits(c) for c in node[3])
        return sum(self._resumable_bits(c) for c in node[2])
    # ------------------------------------------------------------------ what the C++ side needs
    def fork_of(self, sid):
        """the identifier HFSM2 uses for the fork headed by state sid: composite index+1, orthogonal -(index+1); 0 = none (root's parent)"""
        if sid < 0: return 0
        st = self.states[sid]
        return st['compo'] + 1 if st['kind'] == 'C' else -(st['ortho'] + 1)
    def decl(self):
        """the HFSM2 declaration, states named St<id>"""
        counter = [0]
        def rec(node, root):
            sid = counter[0]; counter[0] += 1
            if node[0] == 'L': return 'St<%d>' % sid
            kind = node[0]; headed = node[2] if kind == 'C' else node[1]
            subs = [rec(c, False) for c in node[-1]]
            if kind == 'C':
                name = STRAT_NAMES[node[1]]
                if root: name = {'Composite': '', 'Resumable': 'Resumable', 'Selectable': 'Selectable', 'Utilitarian': 'Utilitarian', 'Random': 'Random'}[name]
                if root: tpl = 'M::%s%sRoot' % (name, '' if headed else 'Peer')
                else: tpl = 'M::%s%s' % (name, '' if headed else 'Peers')
            else:
                if root: tpl = 'M::Orthogonal%sRoot' % ('' if headed else 'Peer')
                else: tpl = 'M::Orthogonal%s' % ('' if headed else 'Peers')
            args = (['St<%d>' % sid] if headed else []) + subs
            return '%s<%s>' % (tpl, ', '.join(args))
        return rec(self.shape, True)
    def defines(self):
        n = len(self.states)
        sp = ', '.join('{%d,%d,%d,%d,%d,%d,%d}' % (s['parent'], self.fork_of(s['parent']), s['prong'], {'L': 0, 'C': 1, 'O': 2}[s['kind']], s['width'], 1 if s['headed'] else 0, s['region']) for s in self.states)
        rg = ', '.join('{%d,%d}' % (r['head'], r['size']) for r in self.regions) or '{0,0}'
        cp = ', '.join(str(h) for h in self.compo) or '0'
        op = ', '.join('{%d,%d,%d}' % o for o in self.ortho) or '{0,0,0}'
        named = [i for i, s in enumerate(self.states) if s['headed']]
        heads = [(i, s['own_region']) for i, s in enumerate(self.states) if s['headed'] and s['own_region'] >= 0]
        d = {
            'VM_DECL': self.decl(), 'VM_NS': n, 'VM_NR': len(self.regions), 'VM_NC': len(self.compo), 'VM_NO': len(self.ortho), 'VM_NU': self.units,
            'VM_PRONGS': self.prongs, 'VM_ABITS': self.active_bits, 'VM_RBITS': self.resumable_bits,
            'VM_STATES': sp, 'VM_REGIONS': rg, 'VM_COMPO': cp, 'VM_ORTHO': op,
            'VM_FOR_NAMED(X)': ' '.join('X(%d)' % i for i in named),
            'VM_FOR_HEADS(X)': ' '.join('X(%d,%d)' % h for h in heads) or '',
        }
        return d
    def text(self):
        def rec(node):
            if node[0] == 'L': return 'l'
            if node[0] == 'C': return '%s%s(%s)' % (node[1] if node[2] else node[1].lower() + '*', '', ' '.join(rec(c) for c in node[3]))
            return '%s(%s)' % ('O' if node[1] else 'o*', ' '.join(rec(c) for c in node[2]))
        return rec(self.shape)

def leaves(n): return [L() for _ in range(n)]

def family(seed=1, n_random=12):
    """(name, shape, tier) - the named, finite family of DESIGN 11.9"""
    out = []
    for w in range(1, 10):
        out.append(('croot_w%d' % w, C(*leaves(w)), 'quick' if w in (1, 2, 3, 5, 8, 9) else 'thorough'))
    for w in range(2, 10):
        out.append(('peerroot_w%d' % w, C(*leaves(w), headed=False), 'quick' if w in (2, 7) else 'thorough'))
    for w in (1, 2, 3, 7, 8, 9, 16, 17):
        out.append(('oroot_w%d' % w, O(*(leaves(w - 1) + [C(L(), L())])), 'quick' if w in (1, 3, 8, 9, 17) else 'thorough'))   # (a machine needs at least one composite region)
    # a sub-region at every position of a 5-wide and a 6-wide region (offsets of the left/right halves of the balanced split)
    for w in (5, 6):
        for k in range(w):
            for kind in ('C', 'O'):
                sub = C(L(), L(), L()) if kind == 'C' else O(L(), L())
                ch = leaves(w); ch[k] = sub
                out.append(('wide%d_%s_at%d' % (w, kind.lower(), k), C(*ch), 'quick' if (w == 5 and kind == 'C') or k in (0, w - 1, w // 2) else 'thorough'))
    # regions on both sides of a split, so that the right half's offsets depend on the left half's counts
    out.append(('two_subregions', C(C(L(), L(), strat='R'), L(), O(C(L(), L()), C(L(), L(), L())), C(L(), L(), L(), L(), strat='U')), 'quick'))
    out.append(('ortho_units', C(O(*leaves(9)), O(*leaves(3)), O(C(L(), L()), O(L(), L()))), 'quick'))       # unit offsets 0, 2, 3, 4
    out.append(('ortho_in_ortho', O(O(L(), L(), headed=False), O(L(), C(L(), L(), headed=False)), L()), 'quick'))
    out.append(('headless_nested', C(C(L(), L(), headed=False, strat='R'), O(L(), L(), headed=False), C(L(), C(L(), L(), headed=False), headed=False), headed=False), 'quick'))
    out.append(('deep_chain', C(C(C(C(C(L(), L()), L()), L()), L()), L()), 'quick'))
    out.append(('deep_right_chain', C(L(), C(L(), C(L(), C(L(), O(L(), C(L(), L())))))), 'quick'))
    out.append(('strategies', C(C(L(), L(), strat='R'), C(L(), L(), L(), strat='S'), C(L(), L(), strat='U'), C(L(), L(), L(), strat='N'), strat='S'), 'quick'))
    out.append(('oroot_regions', O(C(L(), L(), L()), C(L(), L()), C(L(), L(), L(), L(), L()), O(L(), L()), headed=False), 'quick'))
    out.append(('wide9_mixed', C(L(), C(L(), L()), L(), O(L(), L()), L(), L(), C(L(), L(), L()), L(), O(L(), L(), L())), 'quick'))
    rnd = random.Random(1000 + seed)
    def rtree(depth, budget):
        if depth == 0 or budget[0] <= 2 or rnd.random() < 0.35: budget[0] -= 1; return L()
        w = rnd.choice((1, 2, 2, 3, 3, 4, 5, 7))
        budget[0] -= 1
        ch = [rtree(depth - 1, budget) for _ in range(w)]
        if rnd.random() < 0.3: return O(*ch, headed=rnd.random() < 0.7)
        return C(*ch, strat=rnd.choice('CCRSUN'), headed=rnd.random() < 0.7)
    for i in range(n_random):
        t = L()
        while t[0] == "L" or len(Spec(t).states) > 18 or not Spec(t).compo: t = rtree(3, [14])
        out.append(('random_s%d_%d' % (seed, i), t, 'quick' if i < 4 else 'thorough'))
    return out

if __name__ == '__main__':
    for name, shape, tier in family():
        s = Spec(shape)
        print('%-22s %-8s states=%2d regions=%2d  %s' % (name, tier, len(s.states), len(s.regions), s.text()))
