#define HFSM2_ENABLE_UTILITY_THEORY
#include <hfsm2/machine.hpp>
#include <cstdio>
using M = hfsm2::Machine;
struct A; struct B; struct C; struct D;
using FSM = M::RandomPeerRoot<A, B, C, D>;
struct A:FSM::State{}; struct B:FSM::State{}; struct C:FSM::State{}; struct D:FSM::State{};
static int active(const FSM::Instance& f) { return f.isActive<A>() ? 0 : f.isActive<B>() ? 1 : f.isActive<C>() ? 2 : 3; }
int main(){
  FSM::Instance a;
  FSM::Instance b{a};                       // a copy made right after construction must continue exactly like the original
  int diverged = 0;
  for (int i = 0; i < 12; ++i) {
    a.immediateRandomize((hfsm2::StateID) 0); b.immediateRandomize((hfsm2::StateID) 0);
    if (active(a) != active(b)) ++diverged;
  }
  printf("original and copy, driven identically, disagree after %d of 12 steps (the copy draws from the ORIGINAL's generator)\n", diverged);
  return diverged ? 1 : 0;
}
