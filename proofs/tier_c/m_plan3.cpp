// Sample machine for plans owned by an ORTHOGONAL region: two composite prongs whose sub-states report in the same step.   8 states, 3 composite forks, 1 orthogonal fork.
#define HFSM2_ENABLE_PLANS
#define HFSM2_ENABLE_SERIALIZATION
#define HFSM2_ENABLE_TRANSITION_HISTORY
#define HFSM2_ENABLE_UTILITY_THEORY
#include "common/verif.hpp"
using namespace hfsm2; using namespace hfsm2::detail;
struct Rng { float next() { float f = nd_f32(); VASSUME(f >= 0.0f && f < 1.0f); return f; } };
using Cfg = hfsm2::Config::ManualActivation::RandomT<Rng>;
using M = hfsm2::MachineT<Cfg>;
#define S(s) struct s
#define VM_PLANS 1
using FSM = M::PeerRoot< S(A), M::Orthogonal<S(F), M::Composite<S(L), S(L1), S(L2)>, M::Composite<S(R), S(R1), S(R2)>> >;
#define VM_NS 9
#define VM_NC 3
#include "tier_c/spec_types.hpp"
static const VSpec VM_SPEC[VM_NS] = {
  /*0 root*/ { -1, 0, K_COMPO, 2, ST_COMPOSITE, 0 },
  /*1 A   */ {  0, 0, K_LEAF,  0, ST_NONE,     -1 },
  /*2 F   */ {  0, 1, K_ORTHO, 2, ST_NONE,      0 },
  /*3 L   */ {  2, 0, K_COMPO, 2, ST_COMPOSITE, 1 },
  /*4 L1  */ {  3, 0, K_LEAF,  0, ST_NONE,     -1 },
  /*5 L2  */ {  3, 1, K_LEAF,  0, ST_NONE,     -1 },
  /*6 R   */ {  2, 1, K_COMPO, 2, ST_COMPOSITE, 2 },
  /*7 R1  */ {  6, 0, K_LEAF,  0, ST_NONE,     -1 },
  /*8 R2  */ {  6, 1, K_LEAF,  0, ST_NONE,     -1 },
};
#define VM_NCFG 5
#define VM_PLAN_REGION 1      /* region id of F (regions depth-first: root 0, F 1, L 2, R 3) */
#define VM_PLAN_HEAD 2
#define VM_ORTHO_PLANS 1
#include "tier_c/machine_common.hpp"
struct A : St<1> {}; struct F : St<2> {}; struct L : St<3> {}; struct L1 : St<4> {}; struct L2 : St<5> {}; struct R : St<6> {}; struct R1 : St<7> {}; struct R2 : St<8> {};
#define VM_FOR_STATES(F_) F_(A, 1) F_(F, 2) F_(L, 3) F_(L1, 4) F_(L2, 5) F_(R, 6) F_(R1, 7) F_(R2, 8)
#include "tier_c/view.hpp"
#include "tier_c/steps.hpp"
#include "tier_c/entries.hpp"
