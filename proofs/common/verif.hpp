// Prelude of every proof TU (DESIGN.md 2.2 item 2, 2.7).
// The TU defines the HFSM2_ENABLE_* switches it wants *before* including this file.
#pragma once
#ifndef HFSM2_DISABLE_TYPEINDEX
#define HFSM2_DISABLE_TYPEINDEX
#endif
#include <stdint.h>
#include <string.h>
#include <new>
#if defined(HFSM2_ENABLE_STRUCTURE_REPORT)
#ifdef VERIF_NATIVE
#include <typeindex>
#else
// the structure report takes state NAMES from typeid(); the lowering is built freestanding without RTTI, so the names
// (never inspected by any obligation) are replaced by a constant string in these TUs (DESIGN 2.2 item 12)
namespace std { struct type_index { const char* name() const { return "state"; } }; }
static inline std::type_index verif_fake_typeid() { return std::type_index{}; }
#define typeid(x) verif_fake_typeid()
#endif
#endif
// contracts need the representation: access control is switched off for this TU only
#define private public
#define protected public
#define class struct
#ifdef VERIF_DEV_FLAVOUR
#include <hfsm2/machine_dev.hpp>      // the split development headers (C15)
#else
#include <hfsm2/machine.hpp>
#endif
#undef private
#undef protected
#undef class

extern "C" {
void __CPROVER_assume(bool);
void __CPROVER_assert(bool, const char*);
// replayable symbolic inputs: nondet under CBMC (recorded with __CPROVER_input), read from the
// counterexample's input list in a native replay, pseudo-random in the differential driver
bool nd_bool(void); uint8_t nd_u8(void); uint16_t nd_u16(void); uint32_t nd_u32(void); uint64_t nd_u64(void);
int8_t nd_i8(void); int32_t nd_i32(void); float nd_f32(void); double nd_f64(void);
void verif_havoc(void* p, unsigned long n);   // arbitrary bytes
void verif_observe(uint64_t v);               // differential driver: fold a value into the trace hash (no-op under CBMC)
}
// every obligation carries the id of the property it belongs to
#define VASSERT(prop, cond, msg) __CPROVER_assert(!!(cond), #prop ": " msg)
// reachability canary: MUST be reported as failed, otherwise the assumptions before it are contradictory
#define VREACH(msg) __CPROVER_assert(false, "CANARY: " msg)
#define VASSUME(cond) __CPROVER_assume(!!(cond))

template <typename T> static inline void nd_obj(T& x) { verif_havoc(&x, sizeof(T)); }
static inline uint8_t nd_u8_below(unsigned n) { uint8_t v = nd_u8(); VASSUME(v < n); return v; }
static inline uint16_t nd_u16_below(unsigned n) { uint16_t v = nd_u16(); VASSUME(v < n); return v; }
