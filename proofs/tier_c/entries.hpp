// extern "C" entry points = case keys (DESIGN 4.3).  The key is passed as a CONSTANT so that CBMC folds it.
#pragma once
extern "C" void proof_init()       { body_init(); }
extern "C" void proof_exit_enter() { body_exit_enter(); }
extern "C" void proof_reset()      { body_reset(); }
extern "C" void proof_cfg_count()  { VASSERT(C01, cfg_count_rec(0) == VM_NCFG, "the case split over active configurations is exhaustive: the declaration has exactly VM_NCFG of them"); }
// case keys are linked in as constants (tools/driver.py compiles a key file per job): ck[0..7]
extern "C" { extern const int ck0, ck1, ck2, ck3, ck4, ck5, ck6, ck7; }
extern "C" void step_immediate() { body_immediate(ck0, ck1); }                 // kind, destination
extern "C" void step_update()    { body_update((unsigned) ck0, ck1, ck2, ck3); } // configuration, issuer (-1 none), kind, destination
extern "C" void step_queue_overrun() { body_queue_overrun(); }
extern "C" void step_queued2()   { body_queued2(ck0, ck1, ck2, ck3); }          // kind1, dest1, kind2, dest2
extern "C" void step_order_update() { body_order_update((unsigned) ck0); }
extern "C" void step_order_react()  { body_order_react((unsigned) ck0); }
extern "C" void step_order_query()  { body_order_query((unsigned) ck0); }
extern "C" void step_substitute()         { body_substitute((unsigned) ck0, ck1, ck2, ck3, ck4); }   // configuration, dest, guard state, entry(1)/exit(0) guard, substitute dest
extern "C" void step_substitute_forever() { body_substitute_forever((unsigned) ck0, ck1, ck2, ck3); }
extern "C" void step_pingpong()           { body_pingpong((unsigned) ck0, ck1, ck2); }      // configuration, the two destinations
extern "C" void step_queued3()            { body_queued3(ck0, ck1, ck2); }
#ifdef HFSM2_ENABLE_SERIALIZATION
extern "C" void step_save_load() { body_save_load(ck0, ck1); }                              // source configuration, destination configuration (-1 = not activated)
#endif
#ifdef HFSM2_ENABLE_TRANSITION_HISTORY
extern "C" void step_history_replay() { body_history_replay(ck0, ck1); }                    // kind, destination
extern "C" void proof_history_enter() { body_history_enter(); }
extern "C" void step_history_enter_redirect() { body_history_enter(ck0); }      // destination an entry guard redirects the initial activation to
extern "C" void step_history_rounds() { body_history_rounds((unsigned) ck0, ck1, ck2, ck3, ck4, ck5); }   // configuration, dest1, dest2, guard state (entry), dest3
#endif
#ifdef VM_UTILITY
extern "C" void step_utilize()   { body_utilize(ck0, ck1); }       // kind (4 utilize / 0 change), region
extern "C" void step_randomize() { body_randomize(ck0, ck1); }
extern "C" void step_randomize_regions() { body_randomize_regions(ck0, ck1); }
extern "C" void step_randomize_exact() { body_randomize_exact(ck0, ck1); }   // kind (5 / 0), region     // kind (5 randomize / 0 change), region
extern "C" void proof_anonymous_defaults() { body_anonymous_defaults(); }
extern "C" void step_utilize_nested() { body_utilize_nested(ck0, ck1); }   // region, full (1 = also the product/mean rule of the enclosing region)
#endif
#ifdef VM_PLANS
extern "C" void step_plan() { body_plan((unsigned) ck0, ck1, ck2, ck3); }        // configuration, plan shape, acting state, action (1 succeed / 2 fail)
#ifdef VM_ORTHO_PLANS
extern "C" void step_plan_ortho() { body_plan_ortho(ck0, ck1); }          // what the left / right prong's sub-state reports (0 silent, 1 succeed, 2 fail)
#endif
#ifdef VM_PLAN_PAYLOAD
extern "C" void step_plan_payload() { body_plan_payload((unsigned) ck0, ck1); }   // configuration, task carries a payload (1/0)
#endif
#ifdef VM_NESTED_PLANS
extern "C" void step_plan_nested() { body_plan_nested(ck0); }
#endif
#endif
#ifdef VM_PAYLOAD
extern "C" void step_payload() { body_payload(ck0, ck1, ck2, ck3); }                 // dest1, has payload 1, dest2 (0 = none), has payload 2
#endif
#ifdef VM_LOGGER
extern "C" void step_logger()         { body_logger(ck0, ck1); }
extern "C" void step_logger_neutral() { body_logger_neutral(ck0, ck1); }
extern "C" void step_logger_update()  { body_logger_update((unsigned) ck0, ck1, ck2, ck3); }
#endif
#ifdef HFSM2_ENABLE_STRUCTURE_REPORT
extern "C" void step_structure()      { body_structure(ck0, ck1); }
#endif
