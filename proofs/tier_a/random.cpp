// C20: bundled generators against the published reference algorithms, for every state / seed / input.   Tier A
#define HFSM2_ENABLE_UTILITY_THEORY
#include "common/verif.hpp"
using namespace hfsm2; using namespace hfsm2::detail;

// ------------------------------------------------------------------ published reference code (Blackman/Vigna, Steele et al.)
extern "C" {
uint64_t ref_splitmix64(uint64_t* x) {                  // http://xoshiro.di.unimi.it/splitmix64.c
  uint64_t z = (*x += 0x9e3779b97f4a7c15);
  z = (z ^ (z >> 30)) * 0xbf58476d1ce4e5b9;
  z = (z ^ (z >> 27)) * 0x94d049bb133111eb;
  return z ^ (z >> 31);
}
uint32_t ref_splitmix32(uint32_t* x) {                  // splitmix32: golden-ratio increment + murmur3 finaliser
  uint32_t z = (*x += 0x9e3779b9);
  z = (z ^ (z >> 16)) * 0x85ebca6b;
  z = (z ^ (z >> 13)) * 0xc2b2ae35;
  return z ^ (z >> 16);
}
// pure spec functions used by the spliced contracts (contracts/random.spec)
uint64_t spec_mix64(uint64_t z) { z = (z ^ (z >> 30)) * 0xbf58476d1ce4e5b9; z = (z ^ (z >> 27)) * 0x94d049bb133111eb; return z ^ (z >> 31); }
uint32_t spec_mix32(uint32_t z) { z = (z ^ (z >> 16)) * 0x85ebca6b; z = (z ^ (z >> 13)) * 0xc2b2ae35; return z ^ (z >> 16); }
// zero outputs are skipped: the mixers are bijections fixing 0, so at most one step in a row yields 0
uint64_t spec_nz64_out(uint64_t s)   { uint64_t a = s + 0x9e3779b97f4a7c15ULL; return spec_mix64(a) ? spec_mix64(a) : spec_mix64(a + 0x9e3779b97f4a7c15ULL); }
uint64_t spec_nz64_state(uint64_t s) { uint64_t a = s + 0x9e3779b97f4a7c15ULL; return spec_mix64(a) ? a : a + 0x9e3779b97f4a7c15ULL; }
uint32_t spec_nz32_out(uint32_t s)   { uint32_t a = s + 0x9e3779b9U; return spec_mix32(a) ? spec_mix32(a) : spec_mix32(a + 0x9e3779b9U); }
uint32_t spec_nz32_state(uint32_t s) { uint32_t a = s + 0x9e3779b9U; return spec_mix32(a) ? a : a + 0x9e3779b9U; }
// the seeding routine's documented deviation: zero outputs are skipped
uint64_t spec_nonzero64(uint64_t* x) { uint64_t r = ref_splitmix64(x); if (!r) r = ref_splitmix64(x); return r; }
uint32_t spec_nonzero32(uint32_t* x) { uint32_t r = ref_splitmix32(x); if (!r) r = ref_splitmix32(x); return r; }
}
static inline uint64_t ref_rotl64(const uint64_t x, int k) { return (x << k) | (x >> (64 - k)); }
static inline uint32_t ref_rotl32(const uint32_t x, int k) { return (x << k) | (x >> (32 - k)); }
static uint64_t ref_x256_next(uint64_t s[4], bool starstar) {
  const uint64_t result = starstar ? ref_rotl64(s[1] * 5, 7) * 9 : s[0] + s[3];
  const uint64_t t = s[1] << 17;
  s[2] ^= s[0]; s[3] ^= s[1]; s[1] ^= s[2]; s[0] ^= s[3];
  s[2] ^= t; s[3] = ref_rotl64(s[3], 45);
  return result;
}
static uint32_t ref_x128_next(uint32_t s[4], bool starstar) {
  const uint32_t result = starstar ? ref_rotl32(s[1] * 5, 7) * 9 : s[0] + s[3];
  const uint32_t t = s[1] << 9;
  s[2] ^= s[0]; s[3] ^= s[1]; s[1] ^= s[2]; s[0] ^= s[3];
  s[2] ^= t; s[3] = ref_rotl32(s[3], 11);
  return result;
}
static void ref_x256_jump(uint64_t s[4]) {
  static const uint64_t JUMP[] = { 0x180ec6d33cfd0aba, 0xd5a61266f0c9392c, 0xa9582618e03fc9aa, 0x39abdc4529b1661c };
  uint64_t s0 = 0, s1 = 0, s2 = 0, s3 = 0;
  for (int i = 0; i < 4; i++)
    for (int b = 0; b < 64; b++) {
      if (JUMP[i] & UINT64_C(1) << b) { s0 ^= s[0]; s1 ^= s[1]; s2 ^= s[2]; s3 ^= s[3]; }
      ref_x256_next(s, false);
    }
  s[0] = s0; s[1] = s1; s[2] = s2; s[3] = s3;
}
static void ref_x128_jump(uint32_t s[4]) {
  static const uint32_t JUMP[] = { 0x8764000b, 0xf542d2d3, 0x6fa035c3, 0x77f2db5b };
  uint32_t s0 = 0, s1 = 0, s2 = 0, s3 = 0;
  for (int i = 0; i < 4; i++)
    for (int b = 0; b < 32; b++) {
      if (JUMP[i] & UINT32_C(1) << b) { s0 ^= s[0]; s1 ^= s[1]; s2 ^= s[2]; s3 ^= s[3]; }
      ref_x128_next(s, false);
    }
  s[0] = s0; s[1] = s1; s[2] = s2; s[3] = s3;
}
template <typename G, typename W> static bool state_is(const G& g, const W s[4]) {
  return g._state[0] == s[0] && g._state[1] == s[1] && g._state[2] == s[2] && g._state[3] == s[3];
}

// ------------------------------------------------------------------ splitmix
extern "C" void proof_splitmix64() {
  uint64_t s = nd_u64(); SimpleRandomT<8> g(s);
  VASSERT(C20, g._state == s, "SimpleRandom(seed) stores the seed");
  uint64_t got = g.raw64(); uint64_t want = ref_splitmix64(&s);
  VASSERT(C20, got == want && g._state == s, "splitmix64 step equals the reference (output and state) for every state");
}
extern "C" void proof_splitmix32() {
  uint32_t s = nd_u32(); SimpleRandomT<4> g(s);
  uint32_t got = g.raw32(); uint32_t want = ref_splitmix32(&s);
  VASSERT(C20, got == want && g._state == s, "splitmix32 step equals the reference (output and state) for every state");
}
extern "C" void proof_nonzero64() {
  uint64_t s = nd_u64(); SimpleRandomT<8> g(s);
  uint64_t got = g.uint64(); uint64_t want = spec_nonzero64(&s);
  VASSERT(C20, got != 0, "seeding source (64) never yields 0");
  VASSERT(C20, got == want && g._state == s, "seeding source (64) = reference sequence with zeros skipped");
}
extern "C" void proof_nonzero32() {
  uint32_t s = nd_u32(); SimpleRandomT<4> g(s);
  uint32_t got = g.uint32(); uint32_t want = spec_nonzero32(&s);
  VASSERT(C20, got != 0, "seeding source (32) never yields 0");
  VASSERT(C20, got == want && g._state == s, "seeding source (32) = reference sequence with zeros skipped");
}
// ------------------------------------------------------------------ seeding
template <typename G> static void seed64() {
  uint64_t seed = nd_u64(); uint64_t x = seed; uint64_t w[4];
  for (int i = 0; i < 4; ++i) { w[i] = spec_nz64_out(x); x = spec_nz64_state(x); }
  G g(seed);
  VASSERT(C20, state_is(g, w), "seed -> state: four successive non-zero splitmix64 outputs");
  VASSERT(C20, g._state[0] | g._state[1] | g._state[2] | g._state[3], "seeding never yields the all-zero state");
  G h; uint64_t z = 0; uint64_t v[4]; for (int i = 0; i < 4; ++i) { v[i] = spec_nz64_out(z); z = spec_nz64_state(z); }
  VASSERT(C20, state_is(h, v), "default construction = seed 0");
  h.seed(seed);
  VASSERT(C20, state_is(h, w), "seed(s) re-seeds like construction from s");
  uint64_t a[4] = { nd_u64(), nd_u64(), nd_u64(), nd_u64() };
  G k(a); VASSERT(C20, state_is(k, a), "construction from a state array stores it");
  h.seed(a); VASSERT(C20, state_is(h, a), "seed(array) stores it");
}
template <typename G> static void seed32() {
  uint32_t seed = nd_u32(); uint32_t x = seed; uint32_t w[4];
  for (int i = 0; i < 4; ++i) { w[i] = spec_nz32_out(x); x = spec_nz32_state(x); }
  G g(seed);
  VASSERT(C20, state_is(g, w), "seed -> state: four successive non-zero splitmix32 outputs");
  VASSERT(C20, g._state[0] | g._state[1] | g._state[2] | g._state[3], "seeding never yields the all-zero state");
  G h; uint32_t z = 0; uint32_t v[4]; for (int i = 0; i < 4; ++i) { v[i] = spec_nz32_out(z); z = spec_nz32_state(z); }
  VASSERT(C20, state_is(h, v), "default construction = seed 0");
  h.seed(seed);
  VASSERT(C20, state_is(h, w), "seed(s) re-seeds like construction from s");
  uint32_t a[4] = { nd_u32(), nd_u32(), nd_u32(), nd_u32() };
  G k(a); VASSERT(C20, state_is(k, a), "construction from a state array stores it");
  h.seed(a); VASSERT(C20, state_is(h, a), "seed(array) stores it");
}
extern "C" void proof_seed_float64() { seed64<FloatRandomT<8>>(); }
extern "C" void proof_seed_int64()   { seed64<IntRandomT<8>>(); }
extern "C" void proof_seed_float32() { seed32<FloatRandomT<4>>(); }
extern "C" void proof_seed_int32()   { seed32<IntRandomT<4>>(); }
// ------------------------------------------------------------------ xoshiro steps
extern "C" void proof_x256plus() {
  uint64_t s[4] = { nd_u64(), nd_u64(), nd_u64(), nd_u64() }; FloatRandomT<8> g(s);
  const uint64_t got = g.uint64(); const uint64_t want = ref_x256_next(s, false);
  VASSERT(C20, got == want && state_is(g, s), "xoshiro256+ step equals the reference for every state");
  uint64_t t[4] = { s[0], s[1], s[2], s[3] };
  const uint32_t got32 = g.uint32(); const uint64_t w2 = ref_x256_next(t, false);
  VASSERT(C20, got32 == (uint32_t) w2 && state_is(g, t), "uint32() = low half of one 64-bit step");
}
extern "C" void proof_x256starstar() {
  uint64_t s[4] = { nd_u64(), nd_u64(), nd_u64(), nd_u64() }; IntRandomT<8> g(s);
  const uint64_t got = g.uint64(); const uint64_t want = ref_x256_next(s, true);
  VASSERT(C20, got == want && state_is(g, s), "xoshiro256** step equals the reference for every state");
}
extern "C" void proof_x128plus() {
  uint32_t s[4] = { nd_u32(), nd_u32(), nd_u32(), nd_u32() }; FloatRandomT<4> g(s);
  const uint32_t got = g.uint32(); const uint32_t want = ref_x128_next(s, false);
  VASSERT(C20, got == want && state_is(g, s), "xoshiro128+ step equals the reference for every state");
}
extern "C" void proof_x128starstar() {
  uint32_t s[4] = { nd_u32(), nd_u32(), nd_u32(), nd_u32() }; IntRandomT<4> g(s);
  const uint32_t got = g.uint32(); const uint32_t want = ref_x128_next(s, true);
  VASSERT(C20, got == want && state_is(g, s), "xoshiro128** step equals the reference for every state");
}
// ------------------------------------------------------------------ jump
extern "C" void proof_jump256plus()  { uint64_t s[4] = { nd_u64(), nd_u64(), nd_u64(), nd_u64() }; FloatRandomT<8> g(s); g.jump(); ref_x256_jump(s); VASSERT(C20, state_is(g, s), "xoshiro256+ jump() equals the reference jump for every state"); }
extern "C" void proof_jump256ss()    { uint64_t s[4] = { nd_u64(), nd_u64(), nd_u64(), nd_u64() }; IntRandomT<8> g(s);   g.jump(); ref_x256_jump(s); VASSERT(C20, state_is(g, s), "xoshiro256** jump() equals the reference jump for every state"); }
extern "C" void proof_jump128plus()  { uint32_t s[4] = { nd_u32(), nd_u32(), nd_u32(), nd_u32() }; FloatRandomT<4> g(s); g.jump(); ref_x128_jump(s); VASSERT(C20, state_is(g, s), "xoshiro128+ jump() equals the reference jump for every state"); }
extern "C" void proof_jump128ss()    { uint32_t s[4] = { nd_u32(), nd_u32(), nd_u32(), nd_u32() }; IntRandomT<4> g(s);   g.jump(); ref_x128_jump(s); VASSERT(C20, state_is(g, s), "xoshiro128** jump() equals the reference jump for every state"); }
// ------------------------------------------------------------------ [0,1)
extern "C" void proof_uniform() {
  const float f = uniform(nd_u32());
  VASSERT(C20, f >= 0.0f && f < 1.0f, "uniform(uint32) lies in [0,1) for every input");
  const double d = uniform((uint64_t) nd_u64());
  VASSERT(C20, d >= 0.0 && d < 1.0, "uniform(uint64) lies in [0,1) for every input");
  if (f >= 0.9999998f) VREACH("floats next to 1 are produced");
}
template <typename G, typename W> static void unit_interval(W a, W b, W c, W d) {
  W s[4] = { a, b, c, d }; G g(s);
  const float f = g.float32(); VASSERT(C20, f >= 0.0f && f < 1.0f, "float32() lies in [0,1) for every state");
  const double x = g.float64(); VASSERT(C20, x >= 0.0 && x < 1.0, "float64() lies in [0,1) for every state");
}
extern "C" void proof_unit_f64() { uint64_t a = nd_u64(), b = nd_u64(), c = nd_u64(), d = nd_u64(); unit_interval<FloatRandomT<8>, uint64_t>(a, b, c, d);
  uint64_t s[4] = { a, b, c, d }; FloatRandomT<8> g(s); const float n = g.next(); VASSERT(C20, n >= 0.0f && n < 1.0f, "next() lies in [0,1) for every state"); }
extern "C" void proof_unit_i64() { uint64_t a = nd_u64(), b = nd_u64(), c = nd_u64(), d = nd_u64(); unit_interval<IntRandomT<8>, uint64_t>(a, b, c, d); }
extern "C" void proof_unit_f32() { uint32_t a = nd_u32(), b = nd_u32(), c = nd_u32(), d = nd_u32(); unit_interval<FloatRandomT<4>, uint32_t>(a, b, c, d);
  uint32_t s[4] = { a, b, c, d }; FloatRandomT<4> g(s); const float n = g.next(); VASSERT(C20, n >= 0.0f && n < 1.0f, "next() lies in [0,1) for every state"); }
extern "C" void proof_unit_i32() { uint32_t a = nd_u32(), b = nd_u32(), c = nd_u32(), d = nd_u32(); unit_interval<IntRandomT<4>, uint32_t>(a, b, c, d); }
// RNGT<float> is the machine's built-in generator: FloatRandomT<pointer width>
extern "C" void proof_rngt() {
  uint64_t seed = nd_u64(); RNGT<float> r(seed); FloatRandomT<sizeof(void*)> f(seed);
  const float a = r.next(); const float b = f.next();
  VASSERT(C20, a == b && a >= 0.0f && a < 1.0f, "the built-in generator is FloatRandom of the pointer width, seed-determined, in [0,1)");
}

// ------------------------------------------------------------------ entry points for goto-instrument --dfcc --enforce-contract
extern "C" void dfcc_raw64()     { SimpleRandomT<8> g; g.raw64(); }
extern "C" void dfcc_nonzero64() { SimpleRandomT<8> g; g.uint64(); }
extern "C" void dfcc_raw32()     { SimpleRandomT<4> g; g.raw32(); }
extern "C" void dfcc_nonzero32() { SimpleRandomT<4> g; g.uint32(); }
extern "C" void dfcc_uniform32() { uniform(nd_u32()); }
extern "C" void dfcc_uniform64() { uniform((uint64_t) nd_u64()); }
// the pure spec equals the published reference iterated with zero-skipping (ties the contracts to the reference code)
extern "C" void proof_spec_is_reference() {
  uint64_t s = nd_u64(), x = s; VASSERT(C20, spec_nz64_out(s) == spec_nonzero64(&x) && spec_nz64_state(s) == x, "contract spec (64) = reference splitmix64 with zeros skipped");
  uint32_t t = nd_u32(), y = t; VASSERT(C20, spec_nz32_out(t) == spec_nonzero32(&y) && spec_nz32_state(t) == y, "contract spec (32) = reference splitmix32 with zeros skipped");
}

extern "C" void verif_drive() {
  FloatRandomT<8> a(nd_u64()); IntRandomT<8> b(nd_u64()); FloatRandomT<4> c(nd_u32()); IntRandomT<4> d(nd_u32());
  for (int i = 0; i < 200; ++i) {
    verif_observe(a.uint64()); verif_observe(b.uint64()); verif_observe(c.uint32()); verif_observe(d.uint32());
    float f = a.next(); uint32_t fb; memcpy(&fb, &f, 4); verif_observe(fb);
    double g = b.float64(); uint64_t gb; memcpy(&gb, &g, 8); verif_observe(gb);
    if (i % 50 == 7) { a.jump(); b.jump(); c.jump(); d.jump(); }
    if (i % 60 == 9) { uint64_t s = nd_u64(); a.seed(s); uint32_t t = nd_u32(); d.seed(t); }
  }
}
