#define HFSM2_ENABLE_PLANS
#include <hfsm2/machine.hpp>
#include <cstdio>
using M = hfsm2::Machine;
struct R; struct O; struct P; struct P1; struct P2; struct Q; struct Q1; struct Q2; struct X;
using FSM = M::Root<R, M::Orthogonal<O, M::Composite<P,P1,P2>, M::Composite<Q,Q1,Q2>>, X>;
struct R:FSM::State{}; struct O:FSM::State{}; struct P:FSM::State{}; struct P1:FSM::State{}; struct P2:FSM::State{}; struct Q:FSM::State{}; struct Q1:FSM::State{}; struct Q2:FSM::State{}; struct X:FSM::State{};
int main(int argc,char**argv){
  FSM::Instance f;
  f.immediateChangeTo<Q2>(); f.immediateChangeTo<P2>();
  printf("before: P2=%d Q2=%d\n", f.isActive<P2>(), f.isActive<Q2>());
  if (argc>1) f.immediateChangeTo<P>(); else f.immediateRestart<P>();
  printf("after: P1=%d P2=%d Q1=%d Q2=%d\n", f.isActive<P1>(), f.isActive<P2>(), f.isActive<Q1>(), f.isActive<Q2>());
  return f.isActive<Q2>()?0:1;
}
