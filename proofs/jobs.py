# Job table of /verif/check (DESIGN.md 8).  Generated programmatically; every job is one CBMC run.
JOBS = []
def job(**kw):
    kw.setdefault('tier', 'quick'); kw.setdefault('defs', {})
    JOBS.append(kw); return kw

# ------------------------------------------------------------------ C19 pool
TL_CARRIERS = [r'TaskListT<.*>::emplace', r'TaskListT<.*>::remove', r'TaskListT<.*>::clear\(\)', r'TaskListT<.*>::operator\[\]']
for cap, tier in ((1, 'quick'), (2, 'quick'), (3, 'quick'), (4, 'quick'), (5, 'thorough'), (8, 'thorough')):
    for pl in (False, True):
        defs = {'CAP': cap}
        if pl: defs['PAYLOAD_INT'] = None
        t = tier if not (pl and cap in (1, 3)) else 'thorough'
        for entry in ('proof_init', 'proof_emplace', 'proof_emplace_full', 'proof_remove', 'proof_clear', 'proof_access'):
            props = ['C19'] + (['C11'] if entry != 'proof_emplace_full' else [])
            job(id='C19.pool.cap%d%s.%s' % (cap, '.int' if pl else '', entry[6:]), tu='tier_a/tasklist.cpp', defs=defs, entry=entry,
                props=props, tier=t, unwind=max(cap + 2, 6), unwindset={'verif_havoc.0': 4096}, objbits=10, carriers=TL_CARRIERS,
                case_key='TaskListT<%s,%d>' % ('int' if pl else 'void', cap))

# ------------------------------------------------------------------ C19 arrays
DA_CARRIERS = [r'DynamicArrayT<.*>::emplace', r'DynamicArrayT<.*>::operator\+=', r'DynamicArrayT<.*>::operator\[\]', r'StaticArrayT<.*>::fill', r'StaticArrayT<.*>::empty', r'StaticArrayT<.*>::operator!=']
for cap, cap2, tier in ((1, 1, 'quick'), (2, 3, 'quick'), (4, 3, 'quick'), (5, 5, 'thorough'), (8, 4, 'thorough')):
    for pl in (False, True):
        defs = {'CAP': cap, 'CAP2': cap2}
        if pl: defs['PAYLOAD_INT'] = None
        t = tier if not (pl and cap == 1) else 'thorough'
        for entry in ('proof_da_init', 'proof_da_emplace_copy', 'proof_da_emplace_args', 'proof_da_bulk', 'proof_da_copy_clear', 'proof_da_iter', 'proof_sa'):
            if entry == 'proof_sa' and pl: continue
            job(id='C19.array.cap%d_%d%s.%s' % (cap, cap2, '.int' if pl else '', entry[6:]), tu='tier_a/arrays.cpp', defs=defs, entry=entry,
                props=['C19', 'C11'], tier=t, unwind=max(cap, cap2, 4) + 2, objbits=10, carriers=DA_CARRIERS,
                case_key='DynamicArrayT<TransitionT<%s>,%d>+=<%d>' % ('int' if pl else 'void', cap, cap2))
