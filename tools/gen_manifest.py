#!/usr/bin/env python3
"""writes /verif/MANIFEST.json from the table below (kept in one place so that the manifest stays valid)"""
import json, os
V = os.path.dirname(os.path.dirname(os.path.abspath(__file__)))
TECH = 'CBMC contracts (harness form + goto-instrument --dfcc) on the real code lowered mechanically clang IR -> C'
TRUST = ('Trusted: clang-14 front end (wasm64 lowering) + LLVM SROA + tools/ll2c.py (all cross-checked per run by a record-layout guard and native differential runs), '
         'CBMC 6.11 and its back ends; machine arithmetic bit-precise. ')
SAMPLE = 'Per sample machine (resumable 6 states, nested 7, orthogonal 9, orthogonal root 7, selectable 7, utility 10 (+nested 10), plan 6): all configurations and decisions symbolic, index-like inputs (destination, request kind, issuing state, active configuration where callbacks issue requests) split exhaustively into case keys. '
L1 = 'The quantifier over machine structures/capacities is covered by the named sample machines only (DESIGN L1); '
CLAIMS = {
 'C01': ('proof', 'Inductive invariant (well-formed configuration, nothing half-applied, API queries agree with it) proved to be established by construction/enter() and preserved by every public entry point exercised (immediate*, queued requests + update, reset, exit/enter, load, replay, guard substitutions) from an ARBITRARY state satisfying it; registry queries proved over symbolic structure tables (Tier B). ' + SAMPLE,
         L1 + 'callbacks restricted to the stubs decision space; at most two (quick) / three queued requests per step.', '4.3 / C01'),
 'C02': ('proof', 'Post-configuration of every approved step proved against the rules of the statement (destination and ancestors active, entered/re-targeted regions pick by request kind, untouched regions keep, resumable = sub-state last left, reset/first activation, empty step = identity); requestImmediate/requestScheduled proved over symbolic structure tables. Known findings: a later request does not override an earlier conflicting one higher up; a request whose destination is a direct sub-state of an active orthogonal region re-resolves the sibling regions / is ignored under an orthogonal root. ' + SAMPLE,
         L1 + 'utilize/randomize choices are checked under C12; the dont-care of a region sitting in its own resumable prong is masked (DESIGN C02).', '4.3 / C02'),
 'C03': ('proof', 'Ghost enter/exit monitor in every user callback: alternation, delivery only to entered states, parent-before-child, exit-after-children, exactly-once counts for enter()/exit()/reset()/load(); every callback of a state is delivered to the object access<State>() returns; entered == active is part of the inductive invariant. ' + SAMPLE, L1, '4.3 / C03'),
 'C04': ('proof', 'Per-step monitor: no state is exited or entered before its own guard was consulted; a vetoed round leaves active and resumable sub-states unchanged and runs no lifecycle callback; an approved round survives the veto of a later round of the same step; substitute requests go through a round of their own; at most SUBSTITUTION_LIMIT rounds; backup/restore/!= proved over symbolic registries. One known finding (the last substitute stays queued at the limit). ' + SAMPLE,
         L1 + 'in substitution jobs only the keyed guard vetoes in round 1 (DESIGN L2); guard order within a round is not checked.', '4.3 / C04'),
 'C05': ('proof', 'The recorded delivery sequence of update()/react()/query() is proved to be exactly: per phase, the active states in the documented order (head-first / sub-states-first), cut right after the consuming state, for a symbolic consumer and phase; query() changes nothing. ' + SAMPLE, L1 + 'top-down order on the sample machines, bottom-up order on the Config option-chain variants of the resumable machine; injected StateT<> handlers on an injection variant of the resumable machine (one injected handler per state).', '4.3 / C05'),
 'C06': ('proof', 'Plan step on a plan-owning region: executed-task set, removal, destination, on-behalf-of-head origin, planSucceeded/planFailed notifications and mark clearing proved per (configuration, plan shape, acting state, succeed/fail). Known finding: tasks are always executed as CHANGE transitions. Plan machine: 6 states, 8 plan shapes.',
         L1 + 'one plan-owning region (8 plan shapes) plus one nested pair of plan-owning regions; succeed/fail decisions are case keys.', '4.3 / C06'),
 'C07': ('proof', 'PlanT append/remove/iterate/remove-while-iterating/clearTasks and PlanDataT::clear proved from an ARBITRARY plan store satisfying wf_plans (disjoint acyclic per-region lists with ghost owner/position, lengths add up) => every interleaving; at and around capacity.', 'Task capacities 1-3 quick (4, 6 thorough), 3 regions, payload void/int.', '4.2 / C07'),
 'C08': ('proof', 'save leaves the instance untouched; load into ANY configuration pair (incl. not activated) reproduces active and resumable sub-states with exactly the required enter/exit callbacks; re-save is bit-identical; stream cursor stays within SERIAL_BITS (the library assertion is an obligation). Resumable marks symbolic. ' + SAMPLE, L1, '4.3 / C08'),
 'C09': ('proof', 'History of a step == the approved requests in order (single request, two approved rounds in one step, approved round followed by a vetoed one); lastTransitionTo within the history; replayTransitions on an identically prepared replica reproduces the active (and, single round, resumable) configuration without consulting guards. ' + SAMPLE, L1 + 'replayEnter is only exercised with the (empty) history of a plain activation.', '4.3 / C09'),
 'C10': ('proof', 'Two-run contracts: two instances placement-constructed into storages with arbitrary independent prior contents and driven by the same script produce identical callback traces and answers (user generator and built-in generator); a copy continues as the original; pool copies are exact.', 'One 6-state random/resumable machine; script of 32 symbolic decisions, two update() steps.', '4.3 / C10'),
 'C11': ('proof', 'The safety side of the other obligations: CBMC bounds/pointer/overflow/shift/conversion checks and the library own assertions (HFSM2_VERIF hook) on every Tier A/B job and the external-request Tier C jobs, from arbitrary invariant states (inductive => any sequence); no allocator in the lowered closure (structural abort in ll2c). Known findings: unchecked request queue, assertion at the substitution limit.',
         L1 + 'Tier C callback-issued-request jobs run without the extra safety flags in the quick tier.', '5 / C11'),
 'C12': ('proof', 'utilize: arg-max / leftmost-on-ties for all finite non-negative utilities, recursively through nested utilitarian and orthogonal (mean) regions; randomize: never none, top rank only, never zero utility, exactly one draw - for all ranks, utilities and generator outputs in [0,1) with positive top-rank sum (floats bit-precise).', 'Region width 3, three nesting samples; exact interval membership is asserted on a rounding-free grid (integer utilities, generator output m/2^20), for arbitrary floats only the qualitative clauses (the statement leaves the rounding of the cumulative sums open).', '4.3 / C12'),
 'C13': ('proof', 'isActive/activeSubState/isResumable consistency proved over SYMBOLIC structure tables (every tree that fits 10 states/3 composite/1 orthogonal forks, 10/2/2, and 8/3/0 for the second RegistryT specialisation) under the C01 registry invariant, and re-checked on the sample machines after every step; pending-query clauses decided at registry level: three known findings.',
         'wf_tree premise (what deepRegister builds) checked per sample machine only; capacities fixed.', '4.2 / C13'),
 'C14': ('proof', 'Symbolic payload values through request -> guards (pendingTransitions) -> enter (currentTransitions) -> previousTransitions/lastTransitionTo, single and paired requests with and without payload; task payload stored by append; payload-less insert into a recycled slot exposes none.', 'int32 payload on the resumable machine; plan-task payload only at storage level.', '4.3 / C14'),
 'C16': ('proof', 'Ghost log vs ghost callback trace: every user-defined callback reported exactly once in order with the right state, transition requests and cancellations 1:1, in verbose and interface logging mode; two-run neutrality; structure()[i].isActive and the saturating activityHistory rule for symbolic prior counters.', L1 + 'state names come from a stub typeid (DESIGN 2.2 item 12).', '4.3 / C16'),
 'C18': ('proof', 'Every member of BitArrayT/Bits/CBits and StreamBufferT/BitWriteStreamT::write<W>/BitReadStreamT::read<W> is proved against the bit-set / bit-string view for all indices, view positions, cursors and values, per instantiation of a capacity/width grid; round trip by the write/read contracts plus a direct two-item obligation. One known finding (operator& for N>8).',
         'Capacity grid (5 capacities quick, 15 thorough; 4 stream shapes quick, 17 thorough) stands for "every capacity/width".', '4.1 / C18'),
 'C19': ('proof', 'TaskListT insert/remove/clear/copy/access and DynamicArrayT/StaticArrayT operations proved from an ARBITRARY state satisfying the representation invariant against the ideal pool / sequence view (including the untouched part of the view), so every interleaving follows by induction; per capacity.',
         'Capacities 1-4 quick (+5,8 thorough), payload void and int.', '4.1 / C19'),
 'C20': ('proof', 'Each generator step, jump(), seeding routine and float conversion is proved equal to the transcribed published reference / inside [0,1) for EVERY state, seed and input (32- and 64-bit variants); the seeding loop is proved to terminate within two iterations; seeding chain verified modularly through enforced code contracts (goto-instrument --dfcc, --replace-call-with-contract).',
         'Reference algorithms transcribed by hand from the published sources.', '4.1 / C20'),
 'C15': ('other', 'The same contracts (step obligations of the resumable machine, Tier A samples) are discharged under four feature sets and under both header flavours; each proof unit compiled against the single header and against the development headers must lower to identical LLVM IR function by function (translation validation of tools/join.py output); Config option chains (bottom-up reactions alone / with head-room options chained after / before it) must satisfy the unchanged delivery-order and step contracts.',
         '4 of 16 feature combinations, 3 option chains, one machine; no relational (product) harness: "unrelated behaviour unchanged" is decided through contracts that do not mention the switched feature.', '5 / C15, 11.6'),
 'C17': ('other', 'Per-shape contracts on the run-time residue of the compile-time type arithmetic (registry tables written by deepRegister(), stateId<>()/regionId<>(), Control::stateId() and region scope seen by callbacks, published counts) against numbers computed from the declaration alone, for a named family of 40 (quick) / 71 (thorough) shapes incl. seeded random trees; every obligation of every shape discharged by CBMC on the lowered real code.',
         'The quantifier over ALL machine structures is covered by the shape family only (not a proof of C17); tools/shapes.py (expected numbers) is trusted; the arithmetic itself is evaluated by clang, CBMC sees its results.', '11.9'),
}
NA = {
}
# properties whose check has been run end-to-end on the unchanged tree (exit 0, valid evidence); the others stay under not_applicable until then
READY = ['C13', 'C18', 'C19', 'C20']
CLAIMS = {k: v for k, v in CLAIMS.items() if k in READY}
props = [json.loads(l) for l in open(os.path.join(V, 'properties.jsonl'))]
checks = []
for p in props:
    i = p['id']
    if i not in CLAIMS: continue
    cat, text, note, ref = CLAIMS[i]
    checks.append({'property_id': i, 'quick_cmd': './check %s --tier quick' % i, 'thorough_cmd': './check %s --tier thorough' % i,
                   'evidence_file': 'evidence/%s.json' % i, 'replay_cmd_template': './check %s --replay {path}' % i, 'engine': 'cbmc-contracts',
                   'level_claimed': {'category': cat, 'text': text, 'design_ref': 'DESIGN.md ' + ref}, 'level_note': TRUST + note, 'technique': TECH})
na = [{'property_id': p['id'], 'reason': NA.get(p['id'], 'check not built yet (build round in progress); will be claimed or given a measured reason')} for p in props if p['id'] not in CLAIMS]
m = {'version': 1,
     'setup_cmd': 'python3 tools/selfcheck.py',
     'hooks': {'guard': 'HFSM2_VERIF', 'enable': 'proof TUs are compiled with -DHFSM2_VERIF -DHFSM2_ENABLE_ASSERT (routes HFSM2_BREAK/HFSM2_ASSERT to hfsm2_verif_break())',
               'baseline_off_cmd': 'cmake --build /repo/_build && ctest --test-dir /repo/_build -j8 --timeout 900',
               'source_commits': ['23a85b3'], 'add_only': True},
     'engines': [{'name': 'cbmc-contracts', 'path': 'check', 'serves_properties': sorted(CLAIMS), 'kind_free_text': 'contract-based deductive verification: clang++-14 IR (wasm64) -> opt sroa -> tools/ll2c.py -> goto-cc -> [goto-instrument --dfcc] -> cbmc 6.11 (SAT / cvc5 / z3 portfolio); native replay and differential translation validation with g++/gcc'}],
     'checks': checks,
     'notes': 'see DESIGN.md; known findings in known_findings.json; exit 2 = undecided (tool limit), never used for a violation',
     'not_applicable': na}
json.dump(m, open(os.path.join(V, 'MANIFEST.json'), 'w'), indent=1)
print('manifest: %d checks, %d not applicable' % (len(checks), len(na)))
