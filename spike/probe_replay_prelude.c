float nondet_float(void); signed char nondet_schar(void);
float verif_nondet_float(void){ float v = nondet_float(); __CPROVER_input("f32", v); return v; }
signed char verif_nondet_schar(void){ signed char v = nondet_schar(); __CPROVER_input("i8", v); return v; }
