// Sample machine: headless composite root, composite in composite (three levels), leaves.   7 states, 3 composite forks.
#define HFSM2_ENABLE_PLANS
#define HFSM2_ENABLE_SERIALIZATION
#define HFSM2_ENABLE_TRANSITION_HISTORY
#define HFSM2_ENABLE_UTILITY_THEORY
#include "common/verif.hpp"
using namespace hfsm2; using namespace hfsm2::detail;
struct Rng { float next() { float f = nd_f32(); VASSUME(f >= 0.0f && f < 1.0f); return f; } };
using Cfg = hfsm2::Config::ManualActivation::RandomT<Rng>;
using M = hfsm2::MachineT<Cfg>;
#define S(s) struct s
using FSM = M::PeerRoot< M::Composite<S(R1), M::Composite<S(R2), S(Y0), S(Y)>, S(R1b)>, S(Z) >;
#define VM_NS 7
#define VM_NC 3
#include "tier_c/spec_types.hpp"
static const VSpec VM_SPEC[VM_NS] = {
  /*0 root*/ { -1, 0, K_COMPO, 2, ST_COMPOSITE, 0 },
  /*1 R1  */ {  0, 0, K_COMPO, 2, ST_COMPOSITE, 1 },
  /*2 R2  */ {  1, 0, K_COMPO, 2, ST_COMPOSITE, 2 },
  /*3 Y0  */ {  2, 0, K_LEAF,  0, ST_NONE,     -1 },
  /*4 Y   */ {  2, 1, K_LEAF,  0, ST_NONE,     -1 },
  /*5 R1b */ {  1, 1, K_LEAF,  0, ST_NONE,     -1 },
  /*6 Z   */ {  0, 1, K_LEAF,  0, ST_NONE,     -1 },
};
#define VM_NCFG 4
#include "tier_c/machine_common.hpp"
struct R1 : St<1> {}; struct R2 : St<2> {}; struct Y0 : St<3> {}; struct Y : St<4> {}; struct R1b : St<5> {}; struct Z : St<6> {};
#define VM_FOR_STATES(F_) F_(R1, 1) F_(R2, 2) F_(Y0, 3) F_(Y, 4) F_(R1b, 5) F_(Z, 6)
#include "tier_c/view.hpp"
#include "tier_c/steps.hpp"
#include "tier_c/entries.hpp"
