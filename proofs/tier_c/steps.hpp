// Step harnesses shared by the sample machines (included after the machine's state types are complete).
// Every harness: construct (real constructor) -> symbolic configuration -> assume Inv -> ONE public entry point -> assert.
#pragma once

static Rng g_rng;
#ifdef VM_NO_RNG
#define VM_CTOR
#else
#define VM_CTOR (g_rng)
#endif
struct Snapshot { Prong active[VM_NC]; Prong resumable[VM_NC]; bool on[VM_NS]; };
static void snap(const Instance& f, Snapshot& s) {
  for (int c = 0; c < VM_NC; ++c) { s.active[c] = f._core.registry.compoActive[c]; s.resumable[c] = f._core.registry.compoResumable[c]; }
  for (int i = 0; i < VM_NS; ++i) s.on[i] = spec_active(f, i);
}
static bool same_config(const Instance& f, const Snapshot& s) {
  for (int c = 0; c < VM_NC; ++c) if (f._core.registry.compoActive[c] != s.active[c] || f._core.registry.compoResumable[c] != s.resumable[c]) return false;
  return true;
}
static bool no_lifecycle() { for (int s = 0; s < VM_NS; ++s) if (g_enter_count[s] || g_exit_count[s]) return false; return true; }

// an arbitrary ACTIVATED instance satisfying the invariant
#define ARBITRARY_ACTIVE(f) \
  Instance f VM_CTOR; nd_configuration(f); VASSUME(inv_config(f)); VASSUME(spec_activated(f)); sync_monitor(f); VREACH("arbitrary activated pre-state satisfying the invariant")
#define CONFIGURED(f, k) \
  Instance f VM_CTOR; set_configuration(f, k); for (int c_ = 0; c_ < VM_NC; ++c_) f._core.registry.compoResumable[c_] = nd_u8(); VASSUME(inv_config(f)); sync_monitor(f); VREACH("pre-state of the case key satisfying the invariant")

static void post_invariant(const Instance& f) {
  VASSERT(C01/C11, inv_config(f), "the configuration is well-formed after the step");
  VASSERT(C01/C11, inv_quiescent(f), "nothing is left half-applied after the step (no pending marks, empty queue)");
  VASSERT(C03, inv_monitor(f), "entered states == active states after the step");
  VASSERT(C03, g_this_consistent, "all callbacks of a state are delivered to one and the same object");
#ifdef VM_INJECT
  { bool same = true; for (int s = 0; s < VM_NS; ++s) if (VM_HAS_STUB(s)) same = same && g_inj_entered[s] == g_entered[s];
    VASSERT(C03, same, "injected handlers see the same enter / exit history as the state's own handlers"); }
#endif
#ifdef VM_FOR_STATES
#define VM_X_(T, i) if (g_this[i]) VASSERT(C03, g_this[i] == (const void*) static_cast<const St<i>*>(&f.template access<T>()), "callbacks are delivered to the object that access<State>() returns");
  VM_FOR_STATES(VM_X_)
#undef VM_X_
#endif
  assert_queries_agree(f);
}

// how a freshly entered / re-targeted composite region picks its sub-state (statement of C02)
static bool kind_determined(int kind, int region) {
  if (kind == 1 || kind == 2 || kind == 3) return true;                 // restart, resume, select
  if (kind == 0) return VM_SPEC[region].strategy == ST_COMPOSITE || VM_SPEC[region].strategy == ST_RESUMABLE || VM_SPEC[region].strategy == ST_SELECTABLE;
  return false;                                                         // utilize / randomize: checked by the C12 obligations
}
static Prong kind_choice(int kind, int region, const Snapshot& old) {
  const Prong res = old.resumable[VM_SPEC[region].fork];
  if (kind == 1) return 0;
  if (kind == 2) return res != INVALID_PRONG ? res : 0;
  if (kind == 3 || VM_SPEC[region].strategy == ST_SELECTABLE) {          // the index returned by its select()
    if (!VM_HAS_STUB(region)) return 0;                                    // an anonymous head answers like the default select(): the first sub-state
    VASSERT(C02, g_sel_called[region], "a region resolved by selection consults its select()");
    return g_sel_val[region];
  }
  return VM_SPEC[region].strategy == ST_RESUMABLE && res != INVALID_PRONG ? res : 0;
}
// C02 postcondition of ONE approved request (kind, dest) from configuration `old`
static void post_single_request(const Instance& f, const Snapshot& old, int kind, int dest) {
  const Registry& r = f._core.registry;
  if (kind == 6) {                                                        // schedule: not a transition
    VASSERT(C02, no_lifecycle(), "schedule runs no lifecycle callback");
    for (int c = 0; c < VM_NC; ++c) VASSERT(C02, r.compoActive[c] == old.active[c], "schedule changes no active sub-state");
    const int p = VM_SPEC[dest].parent;
    for (int s = 0; s < VM_NS; ++s) if (VM_SPEC[s].kind == K_COMPO) {
      if (s == p) VASSERT(C02, r.compoResumable[VM_SPEC[s].fork] == VM_SPEC[dest].prong, "schedule(s) makes s the resumable sub-state of its region");
      else        VASSERT(C02, r.compoResumable[VM_SPEC[s].fork] == old.resumable[VM_SPEC[s].fork], "schedule(s) leaves the other regions' resumable sub-states");
    }
    return;
  }
  VASSERT(C02, spec_active(f, dest), "the requested destination and all its ancestors are active");
  for (int s = 0; s < VM_NS; ++s) {
    if (VM_SPEC[s].kind != K_COMPO) continue;
    const int c = VM_SPEC[s].fork;
    const bool on_path = spec_is_ancestor_or_self(s, dest) && s != dest;      // proper ancestor of the destination
    const bool below   = spec_is_ancestor_or_self(dest, s);                   // the destination itself or inside it
    const bool now = spec_active(f, s), was = old.on[s];
    if (!on_path && !below && was && now) {
      // a region off the path that stays active; it is "touched" only if it had to be re-entered because an ancestor switched
      bool ancestors_kept = true;
      for (int a = VM_SPEC[s].parent; a >= 0; a = VM_SPEC[a].parent)
        if (VM_SPEC[a].kind == K_COMPO && r.compoActive[VM_SPEC[a].fork] != old.active[VM_SPEC[a].fork]) ancestors_kept = false;
      if (ancestors_kept) VASSERT(C02, r.compoActive[c] == old.active[c], "regions no request touches keep their sub-state");
    }
    if (now && (below || !was) && !on_path && kind_determined(kind, s)) {
      // entered or re-targeted region: picks by the request kind
      bool retargeted = below || !was;
      if (retargeted && !(below && was && s != dest && r.compoActive[c] == old.active[c] && kind == 0))
        VASSERT(C02, r.compoActive[c] == kind_choice(kind, s, old), "an entered or re-targeted region picks its sub-state by the request kind");
    }
    // resumable: the sub-state last left
    if (was && (!now || r.compoActive[c] != old.active[c]))
      VASSERT(C02, r.compoResumable[c] == old.active[c], "a region remembers the sub-state it last left as resumable");
    else if (!(now && r.compoActive[c] == old.resumable[c]))               // don't-care: region sitting in its own resumable prong
      VASSERT(C02, r.compoResumable[c] == old.resumable[c], "resumable sub-states of regions that left nothing are unchanged");
  }
}

// ------------------------------------------------------------------------------------------------ init / enter / exit
static void body_init() {
  { Instance f VM_CTOR;
    for (int s = 0; s < VM_NS; ++s) { g_entered[s] = false; g_enter_count[s] = 0; g_exit_count[s] = 0; }
    VASSERT(C01, !spec_activated(f) && inv_config(f) && inv_quiescent(f), "a manually activated instance starts inactive and well-formed");
    VASSERT(C01, !f.isActive(), "not activated: the root is inactive");
    // premise of Tier B: deepRegister() built the declared tree
    const Registry& r = f._core.registry;
    for (int s = 1; s < VM_NS; ++s) {
      const int p = VM_SPEC[s].parent; const Parent link = r.stateParents[s];
      VASSERT(C01, link.prong == VM_SPEC[s].prong && (VM_SPEC[p].kind == K_COMPO ? link.forkId == VM_SPEC[p].fork + 1 : link.forkId == -(VM_SPEC[p].fork + 1)),
              "the registered parent links equal the declaration");
    }
    f.enter();
    VASSERT(C01, spec_activated(f), "enter() activates the machine");
    post_invariant(f);
    for (int s = 0; s < VM_NS; ++s) {
      if (VM_HAS_STUB(s)) VASSERT(C03, g_enter_count[s] == (spec_active(f, s) ? 1 : 0) && g_exit_count[s] == 0, "initial activation enters exactly the states that become active, once");
      if (VM_SPEC[s].kind == K_COMPO && spec_active(f, s) && (VM_SPEC[s].strategy == ST_COMPOSITE || VM_SPEC[s].strategy == ST_RESUMABLE))
        VASSERT(C02, r.compoActive[VM_SPEC[s].fork] == 0, "first activation: composite and resumable regions start in their first sub-state");
      if (VM_SPEC[s].kind == K_COMPO) VASSERT(C02, r.compoResumable[VM_SPEC[s].fork] == INVALID_PRONG, "first activation: nothing is resumable");
    }
    f.exit();
    VASSERT(C01, !spec_activated(f) && inv_config(f) && inv_quiescent(f), "exit() deactivates the machine");
    for (int s = 0; s < VM_NS; ++s) if (VM_HAS_STUB(s)) VASSERT(C03, !g_entered[s] && g_exit_count[s] == g_enter_count[s], "exit(): every entered state has been exited exactly once");
  }
}
static void body_exit_enter() {
  ARBITRARY_ACTIVE(f);
  Snapshot old; snap(f, old);
  f.exit();
  VASSERT(C01, !spec_activated(f) && inv_config(f) && inv_quiescent(f), "exit() from any configuration deactivates the machine");
  for (int s = 0; s < VM_NS; ++s) if (VM_HAS_STUB(s)) VASSERT(C03, !g_entered[s] && g_exit_count[s] == (old.on[s] ? 1 : 0) && g_enter_count[s] == 0, "exit(): every active state is exited exactly once, nothing is entered");
  f.enter();
  VASSERT(C01, spec_activated(f), "enter() after exit() activates the machine again");
  post_invariant(f);
  for (int c = 0; c < VM_NC; ++c) VASSERT(C02, f._core.registry.compoResumable[c] == INVALID_PRONG, "re-activation: nothing is resumable");
}
static void body_reset() {
  ARBITRARY_ACTIVE(f);
  Snapshot old; snap(f, old);
  f.reset();
  post_invariant(f);
  VASSERT(C01, spec_activated(f), "reset() leaves the machine activated");
  const Registry& r = f._core.registry;
  for (int s = 0; s < VM_NS; ++s) {
    if (VM_SPEC[s].kind == K_COMPO && spec_active(f, s) && (VM_SPEC[s].strategy == ST_COMPOSITE || VM_SPEC[s].strategy == ST_RESUMABLE))
      VASSERT(C02, r.compoActive[VM_SPEC[s].fork] == 0, "reset(): regions choose by their declared default, as on first activation");
    if (VM_SPEC[s].kind == K_COMPO) VASSERT(C02, r.compoResumable[VM_SPEC[s].fork] == INVALID_PRONG, "reset(): nothing is resumable");
    if (VM_HAS_STUB(s)) VASSERT(C03, g_exit_count[s] == (old.on[s] ? 1 : 0) && g_enter_count[s] == (spec_active(f, s) ? 1 : 0), "reset(): every active state exited once, every newly active state entered once");
  }
}

// ------------------------------------------------------------------------------------------------ external immediate requests
static void call_immediate(Instance& f, int kind, int dest) {
  switch (kind) {
    case 0: f.immediateChangeTo((StateID) dest); break;
    case 1: f.immediateRestart((StateID) dest); break;
    case 2: f.immediateResume((StateID) dest); break;
    case 3: f.immediateSelect((StateID) dest); break;
#ifdef HFSM2_ENABLE_UTILITY_THEORY
    case 4: f.immediateUtilize((StateID) dest); break;
    default: f.immediateRandomize((StateID) dest); break;
#else
    default: break;
#endif
  }
}
static void body_immediate(int kind, int dest) {
  ARBITRARY_ACTIVE(f);
  VREACH("arbitrary activated configuration");
  Snapshot old; snap(f, old);
  g_expect_guards = true; g_watch_pending = true;
  call_immediate(f, kind, dest);
  g_expect_guards = false; g_watch_pending = false;
  post_invariant(f);
  if (g_pend_seen && !g_round_cancelled && kind != 6) {
    // C13: inside the guards of the single pending request, the pending queries name exactly the states the request then enters / exits
    VREACH("guards consulted the pending queries of an approved single request");
    VASSERT(C13, g_pend_stable, "every guard of the round gets the same answers from the pending queries");
    for (int s = 0; s < VM_NS; ++s) if (VM_HAS_STUB(s)) {
      VASSERT(C13, (g_pend_enter[s] != 0) == (g_enter_count[s] > 0), "isPendingEnter holds exactly for the states the request is about to enter");
      const bool entered = g_enter_count[s] > 0, exited = g_exit_count[s] > 0;
      const bool nothing_requested_above = g_pend_req[s] == INVALID_PRONG;           // delimiter of the listed findings KF-C13-pending-none*
      int br = s; { int a = VM_SPEC[s].parent; while (a >= 0 && VM_SPEC[a].kind != K_COMPO) { br = a; a = VM_SPEC[a].parent; } }
      const bool third_prong = !nothing_requested_above && g_pend_req[s] != g_pend_act[s] && VM_SPEC[br].prong != g_pend_req[s] && VM_SPEC[br].prong != g_pend_act[s];   // delimiter of KF-C13-change-not-enter-or-exit
      VASSERT(C13, !exited || g_pend_exit[s], "isPendingExit holds for every state the request is about to exit");
      VASSERT(C13, !(g_pend_exit[s] && !exited && !nothing_requested_above), "isPendingExit holds for no state that stays (regions with a pending request)");
      VASSERT(C13, !(g_pend_exit[s] && !exited && nothing_requested_above), "isPendingExit holds for no state that stays (below a region where nothing is requested)");
      VASSERT(C13, !(entered || exited) || g_pend_change[s], "isPendingChange holds for every state the request is about to enter or exit");
      VASSERT(C13, !(g_pend_change[s] && !entered && !exited && !nothing_requested_above && !third_prong), "isPendingChange holds for no state that is neither entered nor exited (regions with a pending request, state on the old or new branch)");
      VASSERT(C13, !(g_pend_change[s] && !entered && !exited && nothing_requested_above), "isPendingChange holds for no state that is neither entered nor exited (below a region where nothing is requested)");
      VASSERT(C13, !(g_pend_change[s] && !entered && !exited && third_prong), "isPendingChange holds for no state that is neither entered nor exited (state on a third branch of a region that switches)");
    }
  }
  if (g_round_cancelled) {
    VASSERT(C04, same_config(f, old), "a vetoed round leaves active and resumable sub-states as they were");
    VASSERT(C04, no_lifecycle(), "a vetoed round runs no lifecycle callback");
  } else {
    VREACH("approved request");
    post_single_request(f, old, kind, dest);
  }
}
// queued external requests: changeTo(..) ; update()
static void call_queued(Instance& f, int kind, int dest) {
  switch (kind) {
    case 0: f.changeTo((StateID) dest); break;
    case 1: f.restart((StateID) dest); break;
    case 2: f.resume((StateID) dest); break;
    case 3: f.select((StateID) dest); break;
#ifdef HFSM2_ENABLE_UTILITY_THEORY
    case 4: f.utilize((StateID) dest); break;
    case 5: f.randomize((StateID) dest); break;
#endif
    default: f.schedule((StateID) dest); break;
  }
}
static bool compatible(int d1, int d2) {       // can the earlier request d1 still hold after the later request d2?
  for (int a = d1; a > 0; a = VM_SPEC[a].parent) for (int b = d2; b > 0; b = VM_SPEC[b].parent)
    if (VM_SPEC[a].parent == VM_SPEC[b].parent && VM_SPEC[VM_SPEC[a].parent].kind == K_COMPO && a != b) return false;   // a composite region would need two prongs
  if (d1 != d2 && spec_is_ancestor_or_self(d2, d1)) return false;   // the later request re-targets a region that contains the earlier destination
  return true;
}
static void body_queued2(int k1, int d1, int k2, int d2) {
  ARBITRARY_ACTIVE(f);
  Snapshot old; snap(f, old);
  call_queued(f, k1, d1); call_queued(f, k2, d2);
  g_issuer = -1; g_issuer2 = -1;
  g_expect_guards = true; f.update(); g_expect_guards = false;
  post_invariant(f);
  if (g_round_cancelled) {
    VASSERT(C04, same_config(f, old) && no_lifecycle(), "a vetoed round changes nothing");
  } else {
    VASSERT(C02, spec_active(f, d2), "the later request of a batch prevails: its destination is active");
    if (compatible(d1, d2)) VASSERT(C02, spec_active(f, d1), "a compatible earlier request of the batch is honoured too");
  }
}
static void body_queued3(int d1, int d2, int d3) {
  ARBITRARY_ACTIVE(f);
  Snapshot old; snap(f, old);
  call_queued(f, 0, d1); call_queued(f, 0, d2); call_queued(f, 0, d3);
  g_issuer = -1; g_issuer2 = -1;
  g_expect_guards = true; f.update(); g_expect_guards = false;
  post_invariant(f);
  if (g_round_cancelled) { VASSERT(C04, same_config(f, old) && no_lifecycle(), "a vetoed round changes nothing"); }
  else {
    VASSERT(C02, spec_active(f, d3), "the last request of a batch prevails: its destination is active");
    if (compatible(d2, d3)) VASSERT(C02, spec_active(f, d2), "a compatible earlier request of the batch is honoured too");
    if (compatible(d1, d3) && compatible(d1, d2)) VASSERT(C02, spec_active(f, d1), "a compatible earlier request of the batch is honoured too");
  }
}
// C11: queuing more transitions than the machine can hold (capacity = number of composite regions)
static void body_queue_overrun() {
  ARBITRARY_ACTIVE(f);
  Snapshot old; snap(f, old);
  for (int k = 0; k <= VM_NC; ++k) f.changeTo((StateID)(1 + k % (VM_NS - 1)));        // capacity + 1 requests, valid ids
  VASSERT(C11, f._core.requests.count() <= VM_NC, "excess requests are rejected: the queue never holds more than its capacity");
  g_issuer = -1; g_issuer2 = -1;
  f.update();
  VASSERT(C11/C01, inv_config(f), "queuing more requests than the machine can hold does not corrupt the configuration");
}
// ------------------------------------------------------------------------------------------------ update() with callbacks issuing requests
static void body_update(unsigned cfg, int issuer, int kind, int dest) {
  CONFIGURED(f, cfg);
  VREACH("configuration of the case key");
  g_issuer = issuer; g_issue_kind = kind; g_issue_dest = dest; g_issuer2 = -1;
  const bool issues = issuer >= 0 && spec_active(f, issuer);
  Snapshot old; snap(f, old);
  g_expect_guards = true; f.update(); g_expect_guards = false;
  post_invariant(f);
  if (!issues) {
    VASSERT(C02, same_config(f, old) && no_lifecycle(), "processing with no pending request changes nothing");
    VASSERT(C04, g_guard_calls == 0, "no request, no guard");
  } else if (g_round_cancelled) {
    VASSERT(C04, kind == 6 || same_config(f, old), "a vetoed round leaves active and resumable sub-states as they were");
    VASSERT(C04, no_lifecycle(), "a vetoed round runs no lifecycle callback");
  } else {
    post_single_request(f, old, kind, dest);
  }
}

// ------------------------------------------------------------------------------------------------ C05: delivery order
// static traversal keys from the declaration: head-first = depth-first id; subs-first = post-order index
static int postorder_index(int s) {            // number of states visited before s in post-order
  int n = 0;
  for (int t = 0; t < VM_NS; ++t) {
    if (t == s) continue;
    if (spec_is_ancestor_or_self(s, t)) ++n;                 // descendants come first
    else if (!spec_is_ancestor_or_self(t, s) && t < s) ++n;  // earlier subtrees that do not contain s
  }
  return n;
}
#ifndef VM_BOTTOM_UP
#define VM_BOTTOM_UP 0
#endif
static bool head_first(int phase) {
  const bool post = phase == PH_POST_UPDATE || phase == PH_POST_REACT;
  const bool react_family = phase == PH_PRE_REACT || phase == PH_REACT || phase == PH_POST_REACT || phase == PH_QUERY;
  return react_family && VM_BOTTOM_UP ? post : !post;
}
static int order_key(int s, int phase) { return head_first(phase) ? s : postorder_index(s); }
// the recorded sequence must be: for each phase in turn, the active states in key order, cut right after the consumer
static void check_sequence(const Instance& f, int first_phase, int last_phase, bool consumable) {
  unsigned pos = 0;
  for (int ph = first_phase; ph <= last_phase; ++ph) {
    int expected = 0, cut_key = 1000;
    if (consumable && g_consume_phase == ph && g_consumer >= 0 && g_consumer < VM_NS && VM_HAS_STUB(g_consumer) && spec_active(f, g_consumer)) cut_key = order_key(g_consumer, ph);
    for (int s = 0; s < VM_NS; ++s) if (spec_active(f, s) && VM_HAS_STUB(s) && order_key(s, ph) <= cut_key) ++expected;
    int prev_key = -1;
    for (int k = 0; k < expected; ++k) {
      VASSERT(C05, pos < g_seq_len && g_seq_phase[pos] == ph, "each phase delivers to exactly the active states (none missing, none extra) up to the consuming state");
      const int s = pos < sizeof g_seq_state ? g_seq_state[pos] : 0;
      VASSERT(C05, spec_active(f, s), "inactive states receive nothing");
      VASSERT(C05, order_key(s, ph) > prev_key && order_key(s, ph) <= cut_key, "delivery follows the documented order and stops at the consuming state");
      prev_key = order_key(s, ph); ++pos;
    }
  }
  VASSERT(C05, pos == g_seq_len, "nothing is delivered beyond the documented sequence");
#ifdef VM_INJECT
  bool paired = true; for (int s = 0; s < VM_NS; ++s) paired = paired && g_inj_mark[s] == 0 && g_own_mark[s] == 0;
  VASSERT(C05, paired, "every delivery reaches the injected handler and the state's own handler (none without the other)");
#endif
}
static void body_order_update(unsigned cfg) {
  CONFIGURED(f, cfg);
  g_issuer = -1; g_issuer2 = -1; g_consumer = -1;
  Snapshot old; snap(f, old);
  f.update();
  check_sequence(f, PH_PRE_UPDATE, PH_POST_UPDATE, false);
  VASSERT(C05, same_config(f, old), "update() without requests leaves the configuration alone");
}
static void body_order_react(unsigned cfg) {
  CONFIGURED(f, cfg);
  g_issuer = -1; g_issuer2 = -1;
  g_consumer = nd_u8(); g_consume_phase = nd_u8();
  VASSUME(g_consume_phase >= PH_PRE_REACT && g_consume_phase <= PH_POST_REACT);
  Snapshot old; snap(f, old);
  Ev e{1};
  f.react(e);
  check_sequence(f, PH_PRE_REACT, PH_POST_REACT, true);
  VASSERT(C05, same_config(f, old), "react() without requests leaves the configuration alone");
}
static void body_order_query(unsigned cfg) {
  CONFIGURED(f, cfg);
  g_consumer = nd_u8(); g_consume_phase = PH_QUERY;
  Snapshot old; snap(f, old);
  const Instance& cf = f;
  Ev e{2};
  cf.query(e);
  check_sequence(f, PH_QUERY, PH_QUERY, true);
  VASSERT(C05, same_config(f, old) && inv_quiescent(f) && no_lifecycle(), "query() changes nothing");
}

// ------------------------------------------------------------------------------------------------ C04: guard-requested substitutes
static void body_substitute(unsigned cfg, int dest, int guard_state, int is_entry, int sub_dest) {
  CONFIGURED(f, cfg);
  g_sub_guard = guard_state; g_sub_is_entry = is_entry != 0; g_sub_dest = sub_dest;
  Snapshot old; snap(f, old);
  f.immediateChangeTo((StateID) dest);
  post_invariant(f);
  if (!g_sub_done) {                                  // the substituting guard was not consulted for this request
    if (g_cancel_round[1]) { VASSERT(C04, same_config(f, old) && no_lifecycle(), "a vetoed round changes nothing"); }
    else post_single_request(f, old, 0, dest);
  } else {
    VREACH("round 1 vetoed by a guard that requested a substitute");
    if (g_cancel_round[2]) {
      VREACH("the substitute round vetoed as well");
      VASSERT(C04, same_config(f, old), "a veto in the substitute round leaves active and resumable sub-states as they were");
      VASSERT(C04, no_lifecycle(), "a veto in the substitute round runs no lifecycle callback");
    } else {
      VASSERT(C04, g_round_now == 2 || dest == sub_dest, "the substitute request goes through the guards in a round of its own");
      post_single_request(f, old, 0, sub_dest);         // the substitute takes effect as if requested alone; the vetoed request does not
    }
  }
}
static void body_substitute_forever(unsigned cfg, int dest, int guard_state, int is_entry) {
  CONFIGURED(f, cfg);
  g_sub_guard = guard_state; g_sub_is_entry = is_entry != 0; g_sub_dest = dest; g_sub_forever = true;
  Snapshot old; snap(f, old);
  f.immediateChangeTo((StateID) dest);
  VASSERT(C01, inv_config(f), "the configuration is well-formed after the step");
  VASSERT(C03, inv_monitor(f), "entered states == active states after the step");
  if (!g_sub_done) VASSERT(C01, inv_quiescent(f), "nothing is left half-applied after the step");
  else VASSERT(C04, f._core.requests.count() == 0, "when processing stops at the substitution limit no request is left behind in the queue");
  if (g_sub_done) {
    VASSERT(C04, g_sub_guard_calls <= Instance::SUBSTITUTION_LIMIT, "processing stops after at most the substitution limit of rounds");
    VASSERT(C04, same_config(f, old) && no_lifecycle(), "a transition vetoed in every round never takes effect");
  }
}

// rounds are bounded also when every round is APPROVED and one of its guards asks for yet another transition without vetoing
static void body_pingpong(unsigned cfg, int a, int b) {
  CONFIGURED(f, cfg);
  g_pp_a = a; g_pp_b = b;
  f.immediateChangeTo((StateID) a);
  VREACH("ping-pong step finished");
  VASSERT(C04, g_pp_rounds <= Instance::SUBSTITUTION_LIMIT, "guards are consulted in at most the substitution limit of rounds per step, approved rounds included");
  VASSERT(C01, inv_config(f), "the configuration is well-formed after the step");
  VASSERT(C03, inv_monitor(f), "entered states == active states after the step");
  VASSERT(C04/C01, spec_active(f, a) || spec_active(f, b), "the step ends in one of the requested states");
}

// ------------------------------------------------------------------------------------------------ C08: save / load / re-save
#ifdef HFSM2_ENABLE_SERIALIZATION
using SerialBuffer = Instance::SerialBuffer;
static void arbitrary_in_configuration(Instance& f, int k) {     // k = configuration index, or -1 for "not activated" (manual activation)
  if (k >= 0) set_configuration(f, (unsigned) k);
  for (int c = 0; c < VM_NC; ++c) f._core.registry.compoResumable[c] = nd_u8();
  VASSUME(inv_config(f));
  VASSUME(k >= 0 ? spec_activated(f) : !spec_activated(f));
}
static void body_save_load(int ka, int kb) {
  Instance a VM_CTOR; arbitrary_in_configuration(a, ka);
  Instance b VM_CTOR; arbitrary_in_configuration(b, kb);
  VREACH("source and destination instances");
  Snapshot sa, sb; snap(a, sa); snap(b, sb);
  sync_monitor(b);                                               // the monitors follow the destination instance
  SerialBuffer buf;
  a.save(buf);
  VASSERT(C08, same_config(a, sa) && inv_quiescent(a), "saving leaves the instance untouched");
  b.load(buf);
  VASSERT(C01, inv_config(b) && inv_quiescent(b), "the configuration is well-formed after load");
  VASSERT(C03, inv_monitor(b), "entered states == active states after load");
  for (int c = 0; c < VM_NC; ++c) {
    VASSERT(C08, b._core.registry.compoActive[c] == sa.active[c], "load reproduces the saved active configuration");
    VASSERT(C08, b._core.registry.compoResumable[c] == sa.resumable[c], "load reproduces the saved resumable sub-states");
  }
  for (int s = 0; s < VM_NS; ++s) if (VM_HAS_STUB(s)) {
    const bool was = sb.on[s], now = spec_active(b, s);
    if (was && !now) VASSERT(C08, g_exit_count[s] == 1 && g_enter_count[s] == 0, "exit is delivered to every state that stops being active");
    if (!was && now) VASSERT(C08, g_enter_count[s] == 1 && g_exit_count[s] == 0, "enter is delivered to every state that becomes active");
    if (!was && !now) VASSERT(C08, g_enter_count[s] == 0 && g_exit_count[s] == 0, "states inactive before and after load receive nothing");
  }
  SerialBuffer buf2;
  b.save(buf2);
  bool same = true; for (unsigned i = 0; i < SerialBuffer::BYTE_COUNT; ++i) same = same && buf._data[i] == buf2._data[i];
  VASSERT(C08, same, "saving the loaded instance again yields a bit-identical buffer");
}
#endif

// ------------------------------------------------------------------------------------------------ C09: history and replay
#ifdef HFSM2_ENABLE_TRANSITION_HISTORY
static void copy_configuration(Instance& to, const Instance& from) {
  for (int c = 0; c < VM_NC; ++c) { to._core.registry.compoActive[c] = from._core.registry.compoActive[c]; to._core.registry.compoResumable[c] = from._core.registry.compoResumable[c]; }
}
static void body_history_replay(int kind, int dest) {
  ARBITRARY_ACTIVE(a);
  Instance r VM_CTOR; copy_configuration(r, a);                     // an identically prepared replica
  Snapshot old; snap(a, old);
  if (kind == 6) { a.schedule((StateID) dest); a.update(); } else call_immediate(a, kind, dest);
  const auto& hist = a.previousTransitions();
  if (!g_round_cancelled) VREACH("approved step");
  if (g_round_cancelled) {
    VASSERT(C09, kind == 6 || hist.count() == 0, "nothing approved: the history of the step is empty");
  } else if (kind != 6) {
    VASSERT(C09, hist.count() == 1, "one approved request: the history holds exactly that request");
    if (hist.count() == 1) VASSERT(C09, hist[0].destination == (StateID) dest && (int) hist[0].type == kind, "the history entry is the request that was applied");
  }
  for (int s = 0; s < VM_NS; ++s) {
    const Instance::Transition* p = a.lastTransitionTo((StateID) s);
    bool inside = p == nullptr; for (unsigned i = 0; i < hist.count(); ++i) inside = inside || p == &hist[i];
    VASSERT(C09, inside, "lastTransitionTo(s) is null or points at an entry of the history");
    if (!g_round_cancelled && kind != 6 && hist.count() == 1 && spec_active(a, s) && !old.on[s])
      VASSERT(C09, p == &hist[0], "after a single approved request lastTransitionTo(s) points at it for every state it activated");
  }
  Snapshot after; snap(a, after);
  sync_monitor(r); g_guards_forbidden = true;                      // the monitors follow the replica now
  if (hist.count()) r.replayTransitions(hist);
  g_guards_forbidden = false;
  VASSERT(C01, inv_config(r) && inv_quiescent(r), "the replica is well-formed after the replay");
  VASSERT(C03, inv_monitor(r), "entered states == active states in the replica");
  for (int c = 0; c < VM_NC; ++c) {
    VASSERT(C09, r._core.registry.compoActive[c] == after.active[c], "replaying the history reproduces the same active configuration");
    if (kind != 6) VASSERT(C09, r._core.registry.compoResumable[c] == after.resumable[c], "single round without scheduling: replay reproduces the resumable sub-states too");
  }
}
// a step with TWO approved rounds: two queued requests, and an entry guard that requests a third transition without vetoing
static void body_history_rounds(unsigned cfg, int d1, int d2, int guard_state, int d3, int veto2) {
  CONFIGURED(a, cfg);
  Instance r VM_CTOR; copy_configuration(r, a);
  g_sub_guard = guard_state; g_sub_is_entry = true; g_sub_dest = d3; g_sub_nocancel = true; g_sub_veto2 = veto2 != 0;
  call_queued(a, 0, d1); call_queued(a, 0, d2);
  g_issuer = -1; g_issuer2 = -1;
  a.update();
  VASSERT(C01, inv_config(a) && inv_quiescent(a), "the configuration is well-formed after the step");
  const auto& hist = a.previousTransitions();
  if (g_sub_done && g_cancel_round[2]) {
    VREACH("an approved round followed by a vetoed one");
    VASSERT(C09/C04, hist.count() == 2, "the history holds the requests of the approved round only");
    VASSERT(C04/C09, spec_active(a, d2), "an approved round is applied although a later round of the same step is vetoed");
  } else if (g_sub_done) {
    VREACH("two approved rounds in one step");
    // (a request that asks for nothing new - e.g. the guard's extra request names what round one already established - changes nothing and is,
    //  as everywhere in the library, not recorded; whether that is the case is decided by the replica check below, not re-derived here)
    VASSERT(C09, hist.count() == 3 || hist.count() == 2, "the history holds the requests of every approved round of the step");
    if (hist.count() >= 2) VASSERT(C09, hist[0].destination == (StateID) d1 && hist[1].destination == (StateID) d2, "the history lists the applied requests in the order they were applied");
    if (hist.count() == 3) VASSERT(C09, hist[2].destination == (StateID) d3, "the history lists the applied requests in the order they were applied (second round)");
  }
  Snapshot after; snap(a, after);
  sync_monitor(r); g_guards_forbidden = true;
  if (hist.count()) r.replayTransitions(hist);
  g_guards_forbidden = false;
  VASSERT(C01, inv_config(r) && inv_quiescent(r), "the replica is well-formed after the replay");
  for (int c = 0; c < VM_NC; ++c) VASSERT(C09, r._core.registry.compoActive[c] == after.active[c], "replaying a multi-round history reproduces the same active configuration");
}
static void body_history_enter(int redirect_to = 0) {
  Instance a VM_CTOR;
  for (int s = 0; s < VM_NS; ++s) { g_entered[s] = false; g_enter_count[s] = 0; g_exit_count[s] = 0; }
  g_guards_forbidden = false; g_round_cancelled = false;
  VREACH("activation of a new instance");
  if (redirect_to > 0) {
    // the entry guard of the state the default activation would enter first redirects the activation (a request issued during
    // the initial activation, without a veto): the activation then has a non-empty history, which replayEnter() must reproduce
    int s0 = 0; for (int k = 0; k < VM_NS && VM_SPEC[s0].kind != K_LEAF; ++k) { for (int c = s0 + 1; c < VM_NS; ++c) if (VM_SPEC[c].parent == s0 && VM_SPEC[c].prong == 0) { s0 = c; break; } }
    g_sub_guard = s0; g_sub_is_entry = true; g_sub_dest = redirect_to; g_sub_nocancel = true; g_sub_done = false;
  }
  a.enter();
  if (redirect_to > 0) {
    VREACH("activation redirected by an entry guard");
    VASSERT(C09, a.previousTransitions().count() <= 1, "the history of the activation holds at most the one request that was issued");     // (a request that asks for what the default activation does anyway changes nothing and is, like in update(), not recorded: the replica check below decides)
    if (g_sub_done) VASSERT(C09/C02, spec_active(a, redirect_to), "the redirected activation ends in the requested state");
    g_sub_guard = -1; g_sub_nocancel = false;
  }
  const auto& hist = a.previousTransitions();
  Snapshot after; snap(a, after);
  Instance r VM_CTOR;
  sync_monitor(r);
  if (hist.count()) { g_guards_forbidden = true; r.replayEnter(hist); g_guards_forbidden = false; } else r.enter();   // an activation that recorded nothing cannot be replayed (replayEnter refuses an empty list)
  if (hist.count()) {
    for (int c = 0; c < VM_NC; ++c) VASSERT(C09, r._core.registry.compoActive[c] == after.active[c], "replayEnter() reproduces the initial activation");
    VASSERT(C03, inv_monitor(r), "entered states == active states after replayEnter()");
  }
}
#endif

// ------------------------------------------------------------------------------------------------ C12: utility and weighted-random selection
#ifdef VM_UTILITY
// the answers of rank()/utility() are drawn BEFORE the call so that the documented preconditions can be assumed up front
static void predraw_answers() {
  for (int s = 1; s < VM_NS; ++s) {
    g_rank_called[s] = true; g_rank_val[s] = nd_i8(); VASSUME(g_rank_val[s] >= -1 && g_rank_val[s] <= 1);      // ranks are signed: negative, zero and positive
    if (!VM_HAS_RANK(s)) g_rank_val[s] = 0;                                                                       // a state that does not override rank() has the default rank
    g_util_called[s] = true; g_util_val[s] = nd_f32(); VASSUME(g_util_val[s] >= 0.0f && g_util_val[s] <= 1000.0f);
  }
}
// utility of a state as the statement defines it: leaf = its own; nested composite region = head x the sub-state it would activate
// (for a region resolved by utilize: its best sub-state); orthogonal region = head x mean of its sub-states
static float spec_utility(int s);
static int spec_best_child(int region) {
  int best = -1; float bu = -1.0f;
  for (int c = region + 1; c < VM_NS; ++c) if (VM_SPEC[c].parent == region) { const float u = spec_utility(c); if (u > bu) { bu = u; best = c; } }   // strict '>' keeps the first on ties
  return best;
}
static float spec_utility(int s) {
  if (VM_SPEC[s].kind == K_LEAF) return g_util_val[s];
  if (VM_SPEC[s].kind == K_COMPO) {
    const int b = spec_best_child(s);
    if (!VM_HAS_STUB(s)) return b >= 0 ? spec_utility(b) : 0.0f;      // an anonymous head defines nothing: it counts like the default utility(), 1
    return g_util_val[s] * (b >= 0 ? spec_utility(b) : 0.0f);
  }
  float sum = 0.0f; for (int c = s + 1; c < VM_NS; ++c) if (VM_SPEC[c].parent == s) sum += spec_utility(c);
  return g_util_val[s] * (sum / VM_SPEC[s].width);
}
// the anonymous head of a headless region defines nothing, so it must answer exactly like a state that overrides nothing
// (State::select() = 0, rank() = 0, utility() = 1): contract on the real wrappers of S_<..., EmptyT>
static void body_anonymous_defaults() {
  Instance f VM_CTOR;
  typename Instance::Control c{f._core};
  using Args_ = typename FSM::Args;
  hfsm2::detail::S_<hfsm2::detail::I_<0, 0, 0, 0>, Args_, hfsm2::detail::EmptyT<Args_>> anon;
  hfsm2::detail::EmptyT<Args_> plain;                        // what a user state that defines nothing inherits
  VREACH("anonymous head");
  VASSERT(C12, anon.wrapUtility(c) == plain.utility(c), "an anonymous region head has the default utility (a headless nested region is worth its best sub-state)");
  VASSERT(C12, anon.deepReportUtilize(c).utility == plain.utility(c) && anon.deepReportChange(c).utility == plain.utility(c) && anon.deepReportRandomize(c) == plain.utility(c),
          "an anonymous region head reports the default utility to the enclosing region (utilize, change, randomize)");
  VASSERT(C12, anon.wrapRank(c) == plain.rank(c) && anon.deepReportRank(c) == plain.rank(c), "an anonymous region head has the default rank");
  VASSERT(C02/C01, anon.wrapSelect(c) == plain.select(c), "an anonymous region head selects like the default select()");
}
static bool all_children_leaves(int r) { for (int c = r + 1; c < VM_NS; ++c) if (VM_SPEC[c].parent == r && VM_SPEC[c].kind != K_LEAF) return false; return true; }
static void body_utilize_nested(int region, int full) {         // utilize(region): every nested region entered resolves by utility too
  ARBITRARY_ACTIVE(f);                                            // full: bit 0 = also assert the product/mean rule, bit 1 = changeTo(region) instead of utilize(region)
  predraw_answers();
  const bool by_change = (full & 2) != 0;
  call_immediate(f, by_change ? 0 : 4, region);
  full &= 1;
  post_invariant(f);
  if (!g_round_cancelled) {
    for (int r = region; r < VM_NS; ++r) {
      if (VM_SPEC[r].kind != K_COMPO || !spec_is_ancestor_or_self(region, r) || !spec_active(f, r)) continue;
      const Prong p = f._core.registry.compoActive[VM_SPEC[r].fork];
      VASSERT(C12/C01, p < VM_SPEC[r].width, "utilize activates a sub-state in the region and in every nested region it enters");
      // regions whose sub-states are all leaves compare plain utilities; the product/mean rule of the enclosing region is
      // asserted only in the 'full' variant (symbolic float products and a division: minutes and >12 GB on this back end)
      // utilize(region) resolves every region it enters by utility; changeTo(region) lets each region follow its DECLARED strategy
      if ((full || all_children_leaves(r)) && (!by_change || VM_SPEC[r].strategy == ST_UTILITARIAN)) {
        const int best = spec_best_child(r);
        VASSERT(C12/C02, best >= 0 && p == VM_SPEC[best].prong, "utilize activates, in the region and in every nested region it enters, the sub-state with the greatest utility (first on ties); a nested region counts head x chosen sub-state, an orthogonal one head x mean");
      }
    }
  }
}
static void body_utilize(int kind, int region) {              // kind: 4 = utilize(region), 0 = changeTo(region) for a region declared utilitarian
  ARBITRARY_ACTIVE(f);
  predraw_answers();
  Snapshot old; snap(f, old);
  call_immediate(f, kind, region);
  post_invariant(f);
  if (!g_round_cancelled) {
    VASSERT(C12, spec_active(f, region), "the utilized region is active");
    const Prong p = f._core.registry.compoActive[VM_SPEC[region].fork];
    VASSERT(C12, p < VM_SPEC[region].width, "utilize activates a sub-state");
    int chosen = -1; for (int c = region + 1; c < VM_NS; ++c) if (VM_SPEC[c].parent == region && VM_SPEC[c].prong == p) chosen = c;
    for (int c = region + 1; c < VM_NS; ++c) if (VM_SPEC[c].parent == region && chosen >= 0) {
      VASSERT(C12, g_util_val[c] <= g_util_val[chosen], "utilize activates the sub-state with the greatest utility");
      if (VM_SPEC[c].prong < p) VASSERT(C12, g_util_val[c] < g_util_val[chosen], "utilize activates the FIRST sub-state on ties");
    }
  }
}
static void body_randomize(int kind, int region) {            // kind: 5 = randomize(region), 0 = changeTo(region) for a region declared random
  ARBITRARY_ACTIVE(f);
  predraw_answers();
  int8_t top = -128; for (int c = region + 1; c < VM_NS; ++c) if (VM_SPEC[c].parent == region && g_rank_val[c] > top) top = g_rank_val[c];
  bool positive = false; for (int c = region + 1; c < VM_NS; ++c) if (VM_SPEC[c].parent == region && g_rank_val[c] == top && g_util_val[c] > 0.0f) positive = true;
  VASSUME(positive);                                           // documented precondition: positive top-rank utility sum
  VREACH("randomize with a positive top-rank sum");
  g_rng_draws_ = 0;
  Snapshot old; snap(f, old);
  call_immediate(f, kind, region);
  if (!g_round_cancelled) {
    const Prong p = f._core.registry.compoActive[VM_SPEC[region].fork];
    VASSERT(C12/C01, p < VM_SPEC[region].width, "randomize never activates none");
    int chosen = -1; for (int c = region + 1; c < VM_NS; ++c) if (VM_SPEC[c].parent == region && VM_SPEC[c].prong == p) chosen = c;
    if (chosen >= 0) {
      VASSERT(C12, g_rank_val[chosen] == top, "randomize considers only sub-states of the highest rank");
      VASSERT(C12, g_util_val[chosen] > 0.0f, "randomize never activates a sub-state with zero utility");
    }
    VASSERT(C12, g_rng_draws_ == 1, "randomize consumes exactly one random number per random region it resolves");
  }
  post_invariant(f);
}
// the exact rule of the statement, free of rounding: utilities are small integers, the generator output lies on the grid m / 2^20, so every
// product and partial sum the library forms is exact in binary32 and "the cumulative-utility interval that contains r x sum" is decidable in integers
// randomize on a region whose options include REGIONS (scratch arrays of ranks / utilities are indexed by prong, not by state): safety and "never none"
static void body_randomize_regions(int kind, int region) {
  ARBITRARY_ACTIVE(f);
  predraw_answers();
  for (int s = 1; s < VM_NS; ++s) VASSUME(g_util_val[s] >= 1.0f && g_util_val[s] <= 2.0f);      // positive everywhere: the documented precondition holds for every region
  VREACH("randomize among options that are regions");
  call_immediate(f, kind, region);
  if (!g_round_cancelled) {
    const Prong p = f._core.registry.compoActive[VM_SPEC[region].fork];
    VASSERT(C12/C01, p < VM_SPEC[region].width, "randomize never activates none");
    int chosen = -1; for (int c = region + 1; c < VM_NS; ++c) if (VM_SPEC[c].parent == region && VM_SPEC[c].prong == p) chosen = c;
    int8_t top = -128; for (int c = region + 1; c < VM_NS; ++c) if (VM_SPEC[c].parent == region && g_rank_val[c] > top) top = g_rank_val[c];
    if (chosen >= 0) VASSERT(C12, g_rank_val[chosen] == top, "randomize considers only sub-states of the highest rank (options that are regions included)");
  }
  post_invariant(f);
}
static void body_randomize_exact(int kind, int region) {
  ARBITRARY_ACTIVE(f);
  predraw_answers();
  unsigned k[VM_NS] = {};
  for (int c = region + 1; c < VM_NS; ++c) if (VM_SPEC[c].parent == region) { k[c] = nd_u8_below(4); g_util_val[c] = (float) k[c]; }
  int8_t top = -128; for (int c = region + 1; c < VM_NS; ++c) if (VM_SPEC[c].parent == region && g_rank_val[c] > top) top = g_rank_val[c];
  uint64_t sum = 0; for (int c = region + 1; c < VM_NS; ++c) if (VM_SPEC[c].parent == region && g_rank_val[c] == top) sum += k[c];
  VASSUME(sum > 0);                                            // documented precondition: positive top-rank utility sum
  VREACH("randomize on the exact grid");
  g_rng_grid = true; g_rng_draws_ = 0;
  call_immediate(f, kind, region);
  g_rng_grid = false;
  if (!g_round_cancelled) {
    const Prong p = f._core.registry.compoActive[VM_SPEC[region].fork];
    VASSERT(C12, g_rng_draws_ == 1, "randomize consumes exactly one random number per random region it resolves");
    uint64_t before = 0; bool found = false;
    for (int c = region + 1; c < VM_NS; ++c) if (VM_SPEC[c].parent == region && g_rank_val[c] == top) {
      const uint64_t after = before + k[c];
      // interval [before, after) scaled by 2^20 against m x sum
      if (VM_SPEC[c].prong == p) { found = true;
        VASSERT(C12, (before << 20) <= (uint64_t) g_rng_m * sum && (uint64_t) g_rng_m * sum < (after << 20),
                "randomize activates the sub-state whose cumulative-utility interval contains r times the sum (exact grid: integer utilities, r = m / 2^20)"); }
      before = after;
    }
    VASSERT(C12, found, "randomize activates a top-rank sub-state");
  }
  post_invariant(f);
}
#endif

// ------------------------------------------------------------------------------------------------ C06: plans
#ifdef VM_PLANS
struct PTask { int origin, dest, kind; };
// plan shapes (origins/destinations are index-like: part of the case key)
static int plan_shape(int shape, PTask out[3]) {
  switch (shape) {
    case 1: out[0] = {3, 4, 0}; return 1;                                   // B1 -> B2
    case 2: out[0] = {3, 4, 0}; out[1] = {4, 5, 0}; return 2;               // chain B1 -> B2, B2 -> B3
    case 3: out[0] = {3, 4, 0}; out[1] = {3, 5, 0}; return 2;               // two tasks on one origin
    case 4: out[0] = {3, 3, 0}; return 1;                                   // cyclic task
    case 5: out[0] = {3, 4, 1}; return 1;                                   // a RESTART task
    case 6: out[0] = {4, 5, 0}; out[1] = {3, 4, 0}; return 2;               // first task's origin may be inactive: it blocks the rest
    case 7: out[0] = {3, 4, 6}; return 1;                                   // a SCHEDULE task
    case 10: out[0] = {3, 3, 0}; out[1] = {3, 4, 0}; return 2;              // a cyclic task followed by another task of the same origin: the cyclic one consumes the success
    case 9: out[0] = {2, 5, 0}; out[1] = {3, 4, 0}; return 2;               // an earlier task whose origin (the head) is ACTIVE but has not succeeded must not block a later one
    default: return 0;
  }
}
static void body_plan(unsigned cfg, int shape, int actor, int action) {
  CONFIGURED(f, cfg);
  PTask t[3]; const int n = plan_shape(shape, t);
  { auto plan = f.plan((RegionID) VM_PLAN_REGION);
    for (int i = 0; i < n; ++i) { bool ok = t[i].kind == 0 ? plan.change((StateID) t[i].origin, (StateID) t[i].dest) : t[i].kind == 1 ? plan.restart((StateID) t[i].origin, (StateID) t[i].dest) : plan.schedule((StateID) t[i].origin, (StateID) t[i].dest); VASSUME(ok); }
    if (shape == 8) { plan.change(3, 4); plan.clearTasks(); } }                // an attached plan with no tasks left
  g_actor = actor; g_action = action; g_issuer = -1; g_issuer2 = -1;
  const bool acts = spec_active(f, actor);
  const bool in_region = spec_is_ancestor_or_self(VM_PLAN_HEAD, actor) && actor != VM_PLAN_HEAD;
  Snapshot old; snap(f, old);
  // spec: which tasks are executed
  bool exec[3] = {false, false, false}; int n_exec = 0, last_dest = -1, last_kind = 0;
  if (acts && in_region && action == 1)
    { bool consumed = false;                                  // a cyclic task (origin == destination) uses up its origin's success: later tasks of that origin wait for the next one
      for (int i = 0; i < n; ++i) { if (!old.on[t[i].origin]) break; if (t[i].origin == actor && !consumed) { exec[i] = true; ++n_exec; last_dest = t[i].dest; last_kind = t[i].kind; if (t[i].origin == t[i].dest) consumed = true; } } }
  f.update();
  VASSERT(C01, inv_config(f) && inv_quiescent(f), "the configuration is well-formed after the step");
  VASSERT(C03, inv_monitor(f), "entered states == active states after the step");
  // remaining plan == initial plan minus the executed tasks, in order
  { const Instance::Core::PlanData& d = f._core.planData; Long c = d.taskBounds[VM_PLAN_REGION].first; bool same = true;
    for (int i = 0; i < n; ++i) if (!exec[i]) {
      if (c >= Instance::Core::PlanData::TASK_CAPACITY) { same = false; break; }
      same = same && d.tasks._items[c].origin == t[i].origin && d.tasks._items[c].destination == t[i].dest; c = d.taskLinks[c].next; }
    if (!(acts && in_region && action == 2) && !(acts && in_region && action == 1 && n == 0))
      VASSERT(C06, same && c == INVALID_LONG, "executed tasks are removed from the plan, and no other task is"); }
  if (acts && in_region && action == 1 && n_exec > 0 && !g_round_cancelled) {
    VREACH("a task is executed");
    const auto& hist = f.previousTransitions();
    VASSERT(C06, hist.count() == (unsigned) n_exec, "every task whose origin succeeded is executed exactly once");
    if (hist.count() >= 1) {
      const auto& tr = hist[hist.count() - 1];
      VASSERT(C06, tr.destination == (StateID) last_dest, "the executed task requests a transition to the task's destination");
      VASSERT(C06, (int) tr.type == last_kind, "the executed task requests a transition of the kind the task was created with");
      VASSERT(C06, tr.origin == (StateID) VM_PLAN_HEAD, "the executed task's transition is requested on behalf of the region head");
    }
    if (last_kind != 6) VASSERT(C06, spec_active(f, last_dest), "the destination of the last executed task is active");
  }
  if (!(acts && in_region && action == 1 && n_exec > 0)) VASSERT(C06, f.previousTransitions().count() == 0, "no task is executed unless its origin is active and succeeded in this step");
  const bool attached = n > 0 || shape == 8;
  VASSERT(C06, g_plan_succeeded[VM_PLAN_HEAD] == ((acts && in_region && action == 1 && attached && n == 0) ? 1 : 0), "the head receives planSucceeded exactly when a sub-state succeeds and the attached plan has no tasks left");
  VASSERT(C06, g_plan_failed[VM_PLAN_HEAD] == ((acts && in_region && action == 2 && attached) ? 1 : 0), "the head receives planFailed exactly when a sub-state fails");
  for (int s = 1; s < VM_NS; ++s) {
    VASSERT(C06, !f._core.planData.tasksFailures.get(s), "failure marks never survive the step");
    if (!(shape == 4 && s == actor && false)) VASSERT(C06, !f._core.planData.tasksSuccesses.get(s) || (acts && action == 1 && s == actor && n_exec == 0 && in_region && attached && n > 0), "success marks survive only while their state waits for its task");
  }
}
#ifdef VM_PLAN_PAYLOAD
// C14: a payload given to a plan task reaches the state the task activates, unchanged; a task without payload exposes none
static void body_plan_payload(unsigned cfg, int with_payload) {
  CONFIGURED(f, cfg);
  VASSUME(spec_active(f, 3));                                        // B1 active: the task's origin
  const int32_t pv = nd_i32();
  { auto plan = f.plan((RegionID) VM_PLAN_REGION);
    const bool ok = with_payload ? plan.changeWith((StateID) 3, (StateID) 4, pv) : plan.change((StateID) 3, (StateID) 4);
    VASSUME(ok); }
  g_actor = 3; g_action = 1; g_issuer = -1; g_issuer2 = -1;
  g_pay_n = 1; g_pay_dest[0] = 4; g_pay_has[0] = with_payload != 0; g_pay_val[0] = pv;      // the stubs check guards (pending) and enter (current) against this
  f.update();
  VASSERT(C01, inv_config(f) && inv_quiescent(f), "the configuration is well-formed after the step");
  if (!g_round_cancelled) {
    VREACH("a payload task is executed");
    VASSERT(C06/C14, spec_active(f, 4), "the task's destination is active");
    St<1>::check_payloads(f.previousTransitions(), false);
    const Instance::Transition* t = f.lastTransitionTo((StateID) 4);
    VASSERT(C14, t != nullptr, "the activating transition is on record");
    if (t) { if (with_payload) VASSERT(C14, t->payload() && *t->payload() == pv, "the payload of a plan task reaches the state the task activates, unchanged");
             else VASSERT(C14, t->payload() == nullptr, "a plan task without payload exposes none"); }
  }
}
#endif
#ifdef VM_ORTHO_PLANS
// a plan owned by an ORTHOGONAL region: sub-states of both prongs report in the same step (1 = succeed, 2 = fail, 0 = silent)
static void body_plan_ortho(int left, int right) {
  CONFIGURED(f, 1);                                              // configuration (F: L1, R1)
  VASSUME(spec_active(f, 4) && spec_active(f, 7));
  { auto plan = f.plan((RegionID) VM_PLAN_REGION); VASSUME(plan.change((StateID) 4, (StateID) 5)); VASSUME(plan.change((StateID) 7, (StateID) 8)); }      // L1 -> L2, R1 -> R2
  g_actor = 4; g_action = left; g_actor2 = 7; g_action2 = right; g_issuer = -1; g_issuer2 = -1;
  f.update();
  VASSERT(C01, inv_config(f) && inv_quiescent(f), "the configuration is well-formed after the step");
  const bool any_fail = left == 2 || right == 2, any_succ = left == 1 || right == 1;
  if (g_round_cancelled) return;
  VREACH("orthogonal prongs reported");
  if (any_fail) {
    VASSERT(C06, g_plan_failed[VM_PLAN_HEAD] == 1 && g_plan_succeeded[VM_PLAN_HEAD] == 0, "if a sub-state fails the head receives planFailed (once), whatever its orthogonal siblings report");
    VASSERT(C06, f.previousTransitions().count() == 0, "no task is executed in a step in which a sub-state of the region failed");
  } else if (any_succ) {
    VASSERT(C06, g_plan_failed[VM_PLAN_HEAD] == 0 && g_plan_succeeded[VM_PLAN_HEAD] == 0, "while tasks remain the head receives no plan notification");
    VASSERT(C06, f.previousTransitions().count() == (unsigned) ((left == 1) + (right == 1)), "every task whose origin succeeded is executed exactly once");
    if (left == 1)  VASSERT(C06, spec_active(f, 5), "the destination of the left prong's task is active");
    if (right == 1) VASSERT(C06, spec_active(f, 8), "the destination of the right prong's task is active");
    if (left != 1)  VASSERT(C06, spec_active(f, 4), "a prong whose sub-state did not report stays where it is");
    if (right != 1) VASSERT(C06, spec_active(f, 7), "a prong whose sub-state did not report stays where it is");
  }
  for (int s = 1; s < VM_NS; ++s) VASSERT(C06, !f._core.planData.tasksFailures.get(s), "failure marks never survive the step");
}
#endif
#ifdef VM_NESTED_PLANS
// the inner region's plan advances when its sub-state succeeds, whatever the ENCLOSING region's head reports in the same step
static void body_plan_nested(int outer_mark) {                  // 0: outer head silent, 1: outer head marked succeeded from outside, 2: marked failed
  CONFIGURED(f, 2);                                              // configuration (B, N, N1)
  VASSUME(spec_active(f, 5));
  { auto inner = f.plan((RegionID) VM_PLAN_REGION); VASSUME(inner.change((StateID) 5, (StateID) 6)); }      // N1 -> N2
  { auto outer = f.plan((RegionID) VM_OUTER_REGION); VASSUME(outer.change((StateID) 3, (StateID) 4)); }     // B1 -> N (origin inactive: never executed here)
  if (outer_mark == 1) f.succeed((StateID) VM_OUTER_HEAD);
  if (outer_mark == 2) f.fail((StateID) VM_OUTER_HEAD);
  g_actor = 5; g_action = 1; g_issuer = -1; g_issuer2 = -1;
  f.update();
  VASSERT(C01, inv_config(f) && inv_quiescent(f), "the configuration is well-formed after the step");
  if (!g_round_cancelled) {
    VREACH("inner sub-state succeeded");
    VASSERT(C06, f._core.planData.taskBounds[VM_PLAN_REGION].first == INVALID_LONG, "the inner plan's task is executed and removed although the enclosing head reported in the same step");
    VASSERT(C06, spec_active(f, 6), "the inner task's destination is active");
  }
  VASSERT(C06, g_plan_succeeded[VM_PLAN_HEAD] == 0 && g_plan_failed[VM_PLAN_HEAD] == 0, "the inner head receives no plan notification while its plan still had a task");
}
#endif
#endif

// ------------------------------------------------------------------------------------------------ C14: payloads
#ifdef VM_PAYLOAD
static void body_payload(int d1, int has1, int d2, int has2) {         // d2 == 0: a single request
  ARBITRARY_ACTIVE(f);
  g_pay_n = d2 ? 2 : 1; g_pay_dest[0] = d1; g_pay_dest[1] = d2; g_pay_has[0] = has1 != 0; g_pay_has[1] = has2 != 0;
  g_pay_val[0] = nd_i32(); g_pay_val[1] = nd_i32();
  { // inductive pre-state: the history left by the PREVIOUS step is arbitrary (any number of entries, each with or without a payload)
    auto& pt = f._core.previousTransitions;
    const unsigned n = nd_u8_below(pt.CAPACITY + 1);
    pt.clear();
    for (unsigned i = 0; i < pt.CAPACITY; ++i) if (i < n) {
      const StateID pd = nd_u16_below(VM_NS); const int32_t pv = nd_i32();
      if (nd_bool()) pt.emplace(Instance::Transition{pd, TransitionType::CHANGE, pv}); else pt.emplace(Instance::Transition{pd, TransitionType::CHANGE});
    }
  }
  if (has1 == 2) f.scheduleWith((StateID) d1, g_pay_val[0]);          // a schedule request with payload, batched with the request that follows
  else if (has1) f.changeWith((StateID) d1, g_pay_val[0]); else f.changeTo((StateID) d1);
  if (d2) { if (has2) f.changeWith((StateID) d2, g_pay_val[1]); else f.changeTo((StateID) d2); }
  g_issuer = -1; g_issuer2 = -1;
  f.update();
  VASSERT(C01, inv_config(f) && inv_quiescent(f), "the configuration is well-formed after the step");
  if (!g_round_cancelled) {
    VREACH("approved payload request");
    St<1>::check_payloads(f.previousTransitions(), false);
    VASSERT(C14, f.previousTransitions().count() == (unsigned) g_pay_n, "the history holds the step's requests with their payloads");
    const int last = d2 ? 1 : 0; const int dl = d2 ? d2 : d1;
    const Instance::Transition* t = f.lastTransitionTo((StateID) dl);
    if (t) { if (g_pay_has[last]) VASSERT(C14, t->payload() && *t->payload() == g_pay_val[last], "lastTransitionTo() carries the payload of the activating request");
             else VASSERT(C14, t->payload() == nullptr, "lastTransitionTo() of a payload-less request exposes none"); }
  }
}
#endif

// ------------------------------------------------------------------------------------------------ C16: logger and structure report
#ifdef VM_LOGGER
struct VLogger : Instance::Logger {
  using Context = Instance::Logger::Context;
  void recordMethod(const Context&, const StateID origin, const Method method) override {
    if (g_log_len < sizeof g_log_state) { g_log_state[g_log_len] = (uint8_t) origin; g_log_method[g_log_len] = (uint8_t) method; } ++g_log_len; }
  void recordTransition(const Context&, const StateID, const TransitionType type, const StateID target) override { ++g_log_transitions; g_log_last_target = target; g_log_last_type = (int) type; }
  void recordCancelledPending(const Context&, const StateID) override { ++g_log_cancels; }
};
static VLogger g_logger;
// log restricted to states that run user code == the trace of user callbacks
static void check_log_mirrors_trace() {
  unsigned k = 0;
  for (unsigned i = 0; i < g_log_len && i < sizeof g_log_state; ++i) {
    const int s = g_log_state[i];
    if (s >= VM_NS || !VM_HAS_STUB(s)) continue;                 // verbose mode also reports states without user code (anonymous heads)
#ifdef VM_UTILITY
    if (g_log_method[i] == (uint8_t) Method::RANK && !VM_HAS_RANK(s)) continue;     // ... and methods a state does not override (mixed-override stubs): not user-defined callbacks
#endif
    VASSERT(C16, k < g_trace_len && g_trace_state[k] == s && g_trace_method[k] == g_log_method[i], "the logger is told every user-defined callback, in the order it happens, with the right state");
    ++k;
  }
  VASSERT(C16, k == g_trace_len, "every user-defined callback is reported to the logger exactly once");
}
static void body_logger(int kind, int dest) {
  ARBITRARY_ACTIVE(f);
  Instance g VM_CTOR; copy_configuration(g, f);                   // the same machine without a logger
  f.attachLogger(&g_logger);
#ifdef VM_UTILITY
  if (kind == 4 || kind == 5) {                                    // documented preconditions of utilize / randomize on the answers of rank() and utility()
    predraw_answers();
    int8_t top = -128; for (int c = dest + 1; c < VM_NS; ++c) if (VM_SPEC[c].parent == dest && g_rank_val[c] > top) top = g_rank_val[c];
    bool positive = false; for (int c = dest + 1; c < VM_NS; ++c) if (VM_SPEC[c].parent == dest && g_rank_val[c] == top && g_util_val[c] > 0.0f) positive = true;
    VASSUME(positive);
  }
#endif
  Snapshot old; snap(f, old);
  call_immediate(f, kind, dest);
  VASSERT(C16, g_log_transitions == 1 && g_log_last_target == dest && g_log_last_type == kind, "the transition request is reported exactly once with its kind and target");
  VASSERT(C16, g_log_cancels == g_cancels_issued, "every cancellation is reported exactly once");
  check_log_mirrors_trace();
  post_invariant(f);
}
// attaching a logger never changes behaviour (guards approve: both runs take the same decisions)
static void body_logger_neutral(int kind, int dest) {
  ARBITRARY_ACTIVE(f);
  Instance g VM_CTOR; copy_configuration(g, f);
  f.attachLogger(&g_logger); g_deterministic = true;
  call_immediate(f, kind, dest);
  uint8_t ts[64], tm[64]; const unsigned n = g_trace_len; for (unsigned i = 0; i < 64; ++i) { ts[i] = g_trace_state[i]; tm[i] = g_trace_method[i]; }
  Snapshot after; snap(f, after);
  sync_monitor(g); g_deterministic = true;
  call_immediate(g, kind, dest);
  VASSERT(C16, same_config(g, after), "with and without a logger the same configuration results");
  bool same = g_trace_len == n; for (unsigned i = 0; i < 64; ++i) if (i < n) same = same && ts[i] == g_trace_state[i] && tm[i] == g_trace_method[i];
  VASSERT(C16, same, "with and without a logger the same callbacks run in the same order");
}
static void body_logger_update(unsigned cfg, int issuer, int kind, int dest) {
  CONFIGURED(f, cfg); f.attachLogger(&g_logger);
  g_issuer = issuer; g_issue_kind = kind; g_issue_dest = dest; g_issuer2 = -1;
  f.update();
  VASSERT(C16, g_log_transitions == g_requests_issued, "every transition request issued from a callback is reported exactly once");
  VASSERT(C16, g_log_cancels == g_cancels_issued, "every cancellation is reported exactly once");
  check_log_mirrors_trace();
}
#endif
#ifdef HFSM2_ENABLE_STRUCTURE_REPORT
static void body_structure(int kind, int dest) {
  ARBITRARY_ACTIVE(f);
  int8_t h[VM_NS]; for (int s = 0; s < VM_NS; ++s) { h[s] = nd_i8(); f._activityHistory[s] = h[s]; }
  call_immediate(f, kind, dest);
  for (int s = 0; s < VM_NS; ++s) {
    const bool on = f.isActive((StateID) s);
    VASSERT(C16, f.structure()[s].isActive == on, "structure()[id].isActive == isActive(id) after the step");
    const int8_t a = f.activityHistory()[s];
    VASSERT(C16, on ? a > 0 : a < 0, "activityHistory() is positive for active and negative for inactive states");
    const int expected = on ? (h[s] < 0 ? 1 : (h[s] < 127 ? h[s] + 1 : 127)) : (h[s] > 0 ? -1 : (h[s] > -128 ? h[s] - 1 : -128));
    VASSERT(C16, a == expected, "activityHistory() counts consecutive report updates in the same condition, saturating");
  }
}
#endif
