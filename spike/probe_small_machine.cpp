#define HFSM2_DISABLE_TYPEINDEX
#define HFSM2_ENABLE_PLANS
#define HFSM2_ENABLE_SERIALIZATION
#define HFSM2_ENABLE_TRANSITION_HISTORY
#define HFSM2_ENABLE_UTILITY_THEORY
#include <stdint.h>
#include <string.h>
#include <new>
#define private public
#define protected public
#define class struct
#include <hfsm2/machine.hpp>
#undef private
#undef protected
#undef class
extern "C" void __CPROVER_assume(bool);
extern "C" void __CPROVER_assert(bool, const char*);
extern "C" unsigned char nondet_uchar(); extern "C" bool nondet_bool();
extern "C" void verif_cb(int state, int method, void* control);
struct Rng { float next() { return 0.25f; } };
using Cfg = hfsm2::Config::ManualActivation::RandomT<Rng>;
using M = hfsm2::MachineT<Cfg>;
#define S(s) struct s
using FSM = M::PeerRoot< S(A), M::Resumable<S(B), S(B1), S(B2)>, S(C) >;
static bool entered[6];
template <int ID> struct Base : FSM::State {
  void entryGuard(GuardControl& c) { if (nondet_bool()) c.cancelPendingTransitions(); }
  void enter(PlanControl&)   { __CPROVER_assert(!entered[ID], "C03 enter only when not entered"); entered[ID] = true; }
  void reenter(PlanControl&) { __CPROVER_assert(entered[ID], "C03 reenter only when entered"); }
  void update(FullControl& c){ __CPROVER_assert(entered[ID], "C03 update only when entered");
#ifdef ISSUER
    if (ID == ISSUER) c.changeTo(DEST);
#endif
  }
  void exitGuard(GuardControl& c) { __CPROVER_assert(entered[ID], "C03 exitGuard only when entered"); if (nondet_bool()) c.cancelPendingTransitions(); }
  void exit(PlanControl&)    { __CPROVER_assert(entered[ID], "C03 exit only when entered"); entered[ID] = false; }
};
struct A : Base<1> {}; struct B : Base<2> {}; struct B1 : Base<3> {}; struct B2 : Base<4> {}; struct C : Base<5> {};
static Rng g_rng;
static bool inv(const FSM::Instance& f) {
  const auto& r = f._core.registry;
  if (r.compoActive[0] > 2) return false;                       // activated
  if ((r.compoActive[0] == 1) != (r.compoActive[1] != 255)) return false;
  if (r.compoActive[1] != 255 && r.compoActive[1] > 1) return false;
  if (r.compoRequested[0] != 255 || r.compoRequested[1] != 255) return false;
  if (r.compoResumable[0] != 255 && r.compoResumable[0] > 2) return false;
  if (r.compoResumable[1] != 255 && r.compoResumable[1] > 1) return false;
  if (!r.compoRemains.empty()) return false;
  if (f._core.requests.count() != 0) return false;
  // ghost monitor agrees with the configuration
  for (int s = 1; s <= 5; ++s) if (entered[s] != f.isActive(s)) return false;
  return true;
}
#ifndef DEST
#define DEST 4
#endif
extern "C" void step_change() {
  FSM::Instance fsm(g_rng);
  auto& r = fsm._core.registry;
  for (int i = 0; i < 2; ++i) { r.compoActive[i] = nondet_uchar(); r.compoResumable[i] = nondet_uchar(); }
  for (int s = 1; s <= 5; ++s) entered[s] = nondet_bool();
  __CPROVER_assume(inv(fsm));
  fsm.immediateChangeTo(DEST);
  __CPROVER_assert(inv(fsm), "C01/C03: invariant preserved");
}

extern "C" void step_update() {
  FSM::Instance fsm(g_rng);
  auto& r = fsm._core.registry;
  for (int i = 0; i < 2; ++i) { r.compoActive[i] = nondet_uchar(); r.compoResumable[i] = nondet_uchar(); }
  for (int s = 1; s <= 5; ++s) entered[s] = nondet_bool();
  __CPROVER_assume(inv(fsm));
#ifdef ISSUER
  __CPROVER_assume(fsm.isActive(ISSUER));
#endif
  fsm.update();
  __CPROVER_assert(inv(fsm), "C01/C03: invariant preserved by update");
}
using SB = FSM::Instance::SerialBuffer;
extern "C" void step_saveload() {
  FSM::Instance a(g_rng), b(g_rng);
  for (int i = 0; i < 2; ++i) { a._core.registry.compoActive[i] = nondet_uchar(); a._core.registry.compoResumable[i] = nondet_uchar(); }
  for (int s = 1; s <= 5; ++s) entered[s] = a.isActive(s);
  __CPROVER_assume(inv(a));
  SB buf; a.save(buf);
  for (int i = 0; i < 2; ++i) { b._core.registry.compoActive[i] = nondet_uchar(); b._core.registry.compoResumable[i] = nondet_uchar(); }
  for (int s = 1; s <= 5; ++s) entered[s] = b.isActive(s);
  __CPROVER_assume(inv(b));
  b.load(buf);
  __CPROVER_assert(inv(b), "C01/C03 after load");
  for (int i = 0; i < 2; ++i) {
    __CPROVER_assert(b._core.registry.compoActive[i] == a._core.registry.compoActive[i], "C08 active restored");
    __CPROVER_assert(b._core.registry.compoResumable[i] == a._core.registry.compoResumable[i], "C08 resumable restored");
  }
  SB buf2; b.save(buf2);
  __CPROVER_assert(buf == buf2, "C08 re-save identical");
}

extern "C" void step_update_cfg() {
  FSM::Instance fsm(g_rng);
  auto& r = fsm._core.registry;
  r.compoActive[0] = 1; r.compoActive[1] = 0;                 // case key: active configuration (B, B1)
  for (int i = 0; i < 2; ++i) r.compoResumable[i] = nondet_uchar();
  for (int s = 1; s <= 5; ++s) entered[s] = fsm.isActive(s);
  __CPROVER_assume(inv(fsm));
  fsm.update();
  __CPROVER_assert(inv(fsm), "C01/C03: invariant preserved by update");
  __CPROVER_assert(fsm.isActive(DEST) || r.compoActive[0] == 1, "either moved to destination or a guard vetoed");
}

extern "C" void step_saveload_cfg() {
  FSM::Instance a(g_rng), b(g_rng);
  a._core.registry.compoActive[0] = 1; a._core.registry.compoActive[1] = 1;   // source: (B, B2)
  for (int i = 0; i < 2; ++i) a._core.registry.compoResumable[i] = nondet_uchar();
  for (int s = 1; s <= 5; ++s) entered[s] = a.isActive(s);
  __CPROVER_assume(inv(a));
  SB buf; a.save(buf);
  b._core.registry.compoActive[0] = 2; b._core.registry.compoActive[1] = 255; // destination: (C)
  for (int i = 0; i < 2; ++i) b._core.registry.compoResumable[i] = nondet_uchar();
  for (int s = 1; s <= 5; ++s) entered[s] = b.isActive(s);
  __CPROVER_assume(inv(b));
  b.load(buf);
  __CPROVER_assert(inv(b), "C01/C03 after load");
  for (int i = 0; i < 2; ++i) {
    __CPROVER_assert(b._core.registry.compoActive[i] == a._core.registry.compoActive[i], "C08 active restored");
    __CPROVER_assert(b._core.registry.compoResumable[i] == a._core.registry.compoResumable[i], "C08 resumable restored");
  }
  SB buf2; b.save(buf2);
  __CPROVER_assert(buf == buf2, "C08 re-save identical");
}
