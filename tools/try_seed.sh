#!/bin/sh
# run a check against a seeded change: apply to /repo, run, undo.   usage: try_seed.sh <patch.diff> <property> [extra check args]
P=$1; PROP=$2; shift 2
git -C /repo apply $P || { echo "patch does not apply"; exit 2; }
cd /verif && timeout 3000 ./check $PROP "$@" 2>&1 | grep -v "^obligation failed\|^   \|^FAILED" | cut -c1-220 | tail -6
git -C /repo checkout -- .
git -C /repo status --short | grep -v _build
