#define HFSM2_DISABLE_TYPEINDEX
#define HFSM2_ENABLE_PLANS
#define HFSM2_ENABLE_SERIALIZATION
#define HFSM2_ENABLE_TRANSITION_HISTORY
#define HFSM2_ENABLE_UTILITY_THEORY
#include <stdint.h>
#include <string.h>
#include <new>
#define private public
#define protected public
#include <hfsm2/machine.hpp>
#undef private
#undef protected
using namespace hfsm2; using namespace hfsm2::detail;
struct Rng { float next() { return 0.5f; } };
using Cfg = hfsm2::Config::ManualActivation::RandomT<Rng>;
using M = hfsm2::MachineT<Cfg>;
#define S(s) struct s
using FSM = M::PeerRoot< S(A), M::Composite<S(B), S(B1), S(B2)>, M::Orthogonal<S(O), S(O1), M::Resumable<S(R), S(R1), S(R2)>> >;
struct A : FSM::State {}; struct B : FSM::State {}; struct B1 : FSM::State {}; struct B2 : FSM::State {};
struct O : FSM::State {}; struct O1 : FSM::State {}; struct R : FSM::State {}; struct R1 : FSM::State {}; struct R2 : FSM::State {};
using Registry = FSM::Instance::Registry;
extern "C" void __CPROVER_assume(bool);
extern "C" void __CPROVER_assert(bool, const char*);
extern "C" unsigned short nondet_ushort();
extern "C" void verif_havoc(void*, unsigned long);
static constexpr int NS = Registry::STATE_COUNT, NC = Registry::COMPO_COUNT, NO = Registry::ORTHO_COUNT, NU = Registry::ORTHO_UNITS;
// well-formed structure tables: every parent link points to a fork with a smaller "rank", ghost ranks witness acyclicity
struct Ghost { uint8_t crank[NC]; uint8_t orank[NO ? NO : 1]; };
static bool wf_parent(const Registry& r, const Ghost& g, const Parent p, unsigned childRank) {
  if (p.forkId == INVALID_FORK_ID) return true;           // root-level
  if (p.forkId > 0) { if (p.forkId > NC) return false; if (p.prong == INVALID_PRONG) return false; return g.crank[p.forkId - 1] < childRank; }
  if (p.forkId < 0) { if (-p.forkId > NO) return false; if (p.prong >= r.orthoUnits[-p.forkId - 1].width) return false; return g.orank[-p.forkId - 1] < childRank; }
  return false;
}
extern "C" bool wf_tree(const Registry* r, const Ghost* g) {
  for (int s = 0; s < NS; ++s) if (!wf_parent(*r, *g, r->stateParents[s], 255)) return false;
  for (int c = 0; c < NC; ++c) { if (g->crank[c] > NC + NO) return false; if (!wf_parent(*r, *g, r->compoParents[c], g->crank[c])) return false; }
  for (int o = 0; o < NO; ++o) { if (g->orank[o] > NC + NO) return false; if (!wf_parent(*r, *g, r->orthoParents[o], g->orank[o])) return false;
    const Units u = r->orthoUnits[o]; if (u.unit + (u.width + 7) / 8 > NU) return false; }
  return true;
}
extern "C" void proof_queries() {
  Registry r; Ghost g; verif_havoc(&r, sizeof r); verif_havoc(&g, sizeof g);
  __CPROVER_assume(wf_tree(&r, &g));
  StateID s = nondet_ushort(); __CPROVER_assume(s < NS);
  const bool e = r.isPendingEnter(s), x = r.isPendingExit(s), c = r.isPendingChange(s);
  __CPROVER_assert(!(e && x), "never both entering and exiting");
  __CPROVER_assert(!(e || x) || c, "enter or exit implies change");
  __CPROVER_assert(!c || e || x, "C13: change holds exactly for either (expected to FAIL on current tree)");
}
extern "C" void proof_request() {
  Registry r; Ghost g; verif_havoc(&r, sizeof r); verif_havoc(&g, sizeof g);
  __CPROVER_assume(wf_tree(&r, &g));
  Registry old = r;
  Registry::Transition t; t.destination = nondet_ushort(); t.type = TransitionType::CHANGE;
  __CPROVER_assume(t.destination > 0 && t.destination < NS);
  r.requestImmediate(t);
  const Parent p = r.stateParents[t.destination];
  if (p.forkId > 0) __CPROVER_assert(r.compoRequested[p.forkId - 1] == p.prong, "destination's region targets it");
  StateID s = nondet_ushort(); __CPROVER_assume(s < NC);
  __CPROVER_assert(r.compoActive[s] == old.compoActive[s] && r.compoResumable[s] == old.compoResumable[s], "frame: active/resumable untouched");
}
