#define HFSM2_DISABLE_TYPEINDEX
#define HFSM2_ENABLE_UTILITY_THEORY
#include <stdint.h>
#include <string.h>
#include <new>
#define private public
#define class struct
#define protected public
#include <hfsm2/machine.hpp>
#undef private
#undef class
#undef protected
using namespace hfsm2; using namespace hfsm2::detail;
extern "C" void __CPROVER_assume(bool);
extern "C" void __CPROVER_assert(bool, const char*);
extern "C" unsigned int nondet_uint(); extern "C" unsigned long nondet_ulong(); extern "C" float nondet_float(); extern "C" signed char nondet_schar();

// reference: xoshiro256+ as published (Blackman, Vigna)
static inline uint64_t ref_rotl(const uint64_t x, int k) { return (x << k) | (x >> (64 - k)); }
static uint64_t ref_next(uint64_t s[4]) {
  const uint64_t result = s[0] + s[3];
  const uint64_t t = s[1] << 17;
  s[2] ^= s[0]; s[3] ^= s[1]; s[1] ^= s[2]; s[0] ^= s[3];
  s[2] ^= t; s[3] = ref_rotl(s[3], 45);
  return result;
}
extern "C" void proof_xoshiro256plus() {
  uint64_t s[4] = { nondet_ulong(), nondet_ulong(), nondet_ulong(), nondet_ulong() };
  FloatRandomT<8> g(s);
  const uint64_t got = g.uint64();
  const uint64_t want = ref_next(s);
  __CPROVER_assert(got == want, "output equals reference");
  __CPROVER_assert(g._state[0] == s[0] && g._state[1] == s[1] && g._state[2] == s[2] && g._state[3] == s[3], "next state equals reference");
}
extern "C" void proof_uniform32() {
  const float f = uniform(nondet_uint());
  __CPROVER_assert(f >= 0.0f && f < 1.0f, "float in [0,1)");
}
extern "C" void proof_uniform64() {
  const double d = uniform((uint64_t) nondet_ulong());
  __CPROVER_assert(d >= 0.0 && d < 1.0, "double in [0,1)");
}

// ---- weighted random selection on a real region
struct Rng { float next() { float f = nondet_float(); __CPROVER_assume(f >= 0.0f && f < 1.0f); return f; } };
using Cfg = hfsm2::Config::ManualActivation::RandomT<Rng>;
using M = hfsm2::MachineT<Cfg>;
#define S(s) struct s
using FSM = M::RandomPeerRoot<S(A), S(B), S(C)>;
template <int N> struct St : FSM::State {
  Rank rank(const Control&) { signed char r = nondet_schar(); __CPROVER_assume(r >= 0 && r <= 1); return r; }
  Utility utility(const Control&) { float u = nondet_float(); __CPROVER_assume(u >= 0.0f && u <= 1000.0f); return u; }
};
struct A : St<1> {}; struct B : St<2> {}; struct C : St<3> {};
static Rng g_rng;
extern "C" void proof_randomize() {
  FSM::Instance fsm(g_rng);
  FSM::Instance::TransitionSets none;
  FSM::Instance::PlanControl control{fsm._core, none};
  fsm._apex.deepRequestRandomize(control, {TransitionType::RANDOMIZE, INVALID_SHORT});
  __CPROVER_assert(fsm._core.registry.compoRequested[0] < 3, "C12: randomize never selects nothing");
}
extern "C" void canary_uniform32() {
  const float f = uniform(nondet_uint());
  __CPROVER_assert(f < 0.99999f, "CANARY must fail");
}
