// specification table types (DESIGN 4.4)
#pragma once
enum VKind : uint8_t { K_LEAF, K_COMPO, K_ORTHO };
enum VStrat : uint8_t { ST_COMPOSITE, ST_RESUMABLE, ST_SELECTABLE, ST_UTILITARIAN, ST_RANDOM, ST_NONE };
struct VSpec {
  int8_t  parent;     // parent state id (-1 for the root)
  uint8_t prong;      // index among the parent's sub-states
  VKind   kind;       // what the state heads
  uint8_t width;      // number of sub-states (0 for a leaf)
  VStrat  strategy;   // declared strategy of a composite region
  int8_t  fork;       // composite fork index (0-based, depth-first among composite regions) or orthogonal index; -1 for leaves
};

