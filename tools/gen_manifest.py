#!/usr/bin/env python3
"""writes /verif/MANIFEST.json from the table below (kept in one place so that the manifest stays valid)"""
import json, os
V = os.path.dirname(os.path.dirname(os.path.abspath(__file__)))
TECH = 'CBMC contracts (harness form + goto-instrument --dfcc) on the real code lowered mechanically clang IR -> C'
TRUST = ('Trusted: clang-14 front end (wasm64 lowering) + LLVM SROA + tools/ll2c.py (all cross-checked per run by a record-layout guard and native differential runs), '
         'CBMC 6.11 and its back ends; machine arithmetic bit-precise. ')
CLAIMS = {
 'C18': ('proof', 'Every member of BitArrayT/Bits/CBits and StreamBufferT/BitWriteStreamT::write<W>/BitReadStreamT::read<W> is proved against the bit-set / bit-string view for all indices, view positions, cursors and values, per instantiation of a capacity/width grid; round trip by the write/read contracts plus a direct two-item obligation. One known finding (operator& for N>8).',
         'Capacity grid (5 capacities quick, 15 thorough; 4 stream shapes quick, 17 thorough) stands for "every capacity/width".', '4.1 / C18'),
 'C19': ('proof', 'TaskListT insert/remove/clear/access and DynamicArrayT/StaticArrayT operations proved from an ARBITRARY state satisfying the representation invariant against the ideal pool / sequence view (including the untouched part of the view), so every interleaving follows by induction; per capacity.',
         'Capacities 1-4 quick (+5,8 thorough), payload void and int.', '4.1 / C19'),
 'C20': ('proof', 'Each generator step, jump(), seeding routine and float conversion is proved equal to the transcribed published reference / inside [0,1) for EVERY state, seed and input (32- and 64-bit variants); the seeding loop is proved to terminate within two iterations; seeding chain verified modularly through enforced code contracts (goto-instrument --dfcc, --replace-call-with-contract).',
         'Reference algorithms transcribed by hand from the published sources.', '4.1 / C20'),
 'C13': ('proof', 'isActive/activeSubState/isResumable consistency proved over SYMBOLIC structure tables (every tree that fits 10 states/3 composite/1 orthogonal forks; both RegistryT specialisations) under the C01 registry invariant; pending-query clauses decided at registry level: three known findings.',
         'wf_tree premise (what deepRegister builds) checked per sample machine only; capacities fixed.', '4.2 / C13'),
}
NA = {
 'C17': 'compile-time template arithmetic: no run-time function a contract can be attached to (DESIGN.md section 1, L3)',
}
props = [json.loads(l) for l in open(os.path.join(V, 'properties.jsonl'))]
checks = []
for p in props:
    i = p['id']
    if i not in CLAIMS: continue
    cat, text, note, ref = CLAIMS[i]
    checks.append({'property_id': i, 'quick_cmd': './check %s --tier quick' % i, 'thorough_cmd': './check %s --tier thorough' % i,
                   'evidence_file': 'evidence/%s.json' % i, 'replay_cmd_template': './check %s --replay {path}' % i, 'engine': 'cbmc-contracts',
                   'level_claimed': {'category': cat, 'text': text, 'design_ref': 'DESIGN.md ' + ref}, 'level_note': TRUST + note, 'technique': TECH})
na = [{'property_id': p['id'], 'reason': NA.get(p['id'], 'check not built yet (build round in progress); will be claimed or given a measured reason')} for p in props if p['id'] not in CLAIMS]
m = {'version': 1,
     'setup_cmd': 'python3 tools/selfcheck.py',
     'hooks': {'guard': 'HFSM2_VERIF', 'enable': 'proof TUs are compiled with -DHFSM2_VERIF -DHFSM2_ENABLE_ASSERT (routes HFSM2_BREAK/HFSM2_ASSERT to hfsm2_verif_break())',
               'baseline_off_cmd': 'cmake --build /repo/_build && ctest --test-dir /repo/_build -j8 --timeout 900',
               'source_commits': ['23a85b3'], 'add_only': True},
     'engines': [{'name': 'cbmc-contracts', 'path': 'check', 'serves_properties': sorted(CLAIMS), 'kind_free_text': 'contract-based deductive verification: clang++-14 IR (wasm64) -> opt sroa -> tools/ll2c.py -> goto-cc -> [goto-instrument --dfcc] -> cbmc 6.11 (SAT / cvc5 / z3 portfolio); native replay and differential translation validation with g++/gcc'}],
     'checks': checks,
     'notes': 'see DESIGN.md; known findings in known_findings.json; exit 2 = undecided (tool limit), never used for a violation',
     'not_applicable': na}
json.dump(m, open(os.path.join(V, 'MANIFEST.json'), 'w'), indent=1)
print('manifest: %d checks, %d not applicable' % (len(checks), len(na)))
