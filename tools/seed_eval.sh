#!/bin/sh
# evaluate a seeded change in its scratch worktree: confirm it (suite green, demo fails with / passes without), then run a check against it
# usage: seed_eval.sh <worktree> <property> [extra ./check args]      (writes <worktree>/_seed/eval.log)
W=$1; PROP=$2; shift 2
{
  echo "== confirm"; sh /verif/tools/confirm_seed.sh $W
  echo "== check $PROP $@"; cd /verif && VERIF_REPO=$W timeout 5000 ./check $PROP "$@" 2>&1 | grep -v "^obligation failed\|^   " | cut -c1-260 | tail -25
} > $W/_seed/eval.log 2>&1
