#include <stdio.h>
#include <stdlib.h>
#include <string.h>
#include <stdint.h>
static FILE* in; static uint64_t next_raw(const char* want) {
  char tag[32]; unsigned long long v;
  if (!in) in = fopen(getenv("VERIF_INPUTS"), "r");
  if (!in || fscanf(in, "%31s %llu", tag, &v) != 2) { printf("replay: input list exhausted\n"); exit(3); }
  if (strcmp(tag, want)) { printf("replay: input kind mismatch (%s vs %s)\n", tag, want); exit(3); }
  return v;
}
extern "C" float verif_nondet_float() { uint32_t b = (uint32_t) next_raw("f32"); float f; memcpy(&f, &b, 4); return f; }
extern "C" signed char verif_nondet_schar() { return (signed char) next_raw("i8"); }
extern "C" void __CPROVER_assume(bool c) { if (!c) { printf("replay: assumption not satisfied (infeasible)\n"); exit(3); } }
extern "C" void __CPROVER_assert(bool c, const char* m) { if (!c) { printf("REPLAY-CONFIRMED: %s\n", m); exit(1); } }
extern "C" void proof_randomize();
int main() { proof_randomize(); printf("replay: no assertion failed\n"); return 0; }
