// Sample machine: headed ORTHOGONAL root with two composite prongs.   7 states, 2 composite forks, 1 orthogonal fork.
// (requests that target the root itself take a path of their own: R_::applyRequest -> _apex.deepRequest(), no registry walk)
#define HFSM2_ENABLE_PLANS
#define HFSM2_ENABLE_SERIALIZATION
#define HFSM2_ENABLE_TRANSITION_HISTORY
#define HFSM2_ENABLE_UTILITY_THEORY
#include "common/verif.hpp"
using namespace hfsm2; using namespace hfsm2::detail;
struct Rng { float next() { float f = nd_f32(); VASSUME(f >= 0.0f && f < 1.0f); return f; } };
using Cfg = hfsm2::Config::ManualActivation::RandomT<Rng>;
using M = hfsm2::MachineT<Cfg>;
#define S(s) struct s
using FSM = M::OrthogonalRoot< S(Apex), M::Composite<S(C1), S(A), S(B)>, M::Composite<S(C2), S(X), S(Y)> >;
#define VM_NS 7
#define VM_NC 2
#define VM_ROOT_HAS_STUB 1
#include "tier_c/spec_types.hpp"
static const VSpec VM_SPEC[VM_NS] = {
  /*0 Apex*/ { -1, 0, K_ORTHO, 2, ST_NONE,      0 },
  /*1 C1  */ {  0, 0, K_COMPO, 2, ST_COMPOSITE, 0 },
  /*2 A   */ {  1, 0, K_LEAF,  0, ST_NONE,     -1 },
  /*3 B   */ {  1, 1, K_LEAF,  0, ST_NONE,     -1 },
  /*4 C2  */ {  0, 1, K_COMPO, 2, ST_COMPOSITE, 1 },
  /*5 X   */ {  4, 0, K_LEAF,  0, ST_NONE,     -1 },
  /*6 Y   */ {  4, 1, K_LEAF,  0, ST_NONE,     -1 },
};
#define VM_NCFG 4
#include "tier_c/machine_common.hpp"
struct Apex : St<0> {}; struct C1 : St<1> {}; struct A : St<2> {}; struct B : St<3> {}; struct C2 : St<4> {}; struct X : St<5> {}; struct Y : St<6> {};
#define VM_FOR_STATES(F_) F_(Apex, 0) F_(C1, 1) F_(A, 2) F_(B, 3) F_(C2, 4) F_(X, 5) F_(Y, 6)
#include "tier_c/view.hpp"
#include "tier_c/steps.hpp"
#include "tier_c/entries.hpp"
