#!/bin/sh
# confirm a seeded change in its scratch worktree: (1) suite passes with the change, (2) demo fails with it, (3) demo passes without it
# usage: confirm_seed.sh <worktree>
W=$1; cd $W || exit 2
git apply --check -R _seed/patch.diff 2>/dev/null || { echo "patch not applied in worktree"; exit 2; }
( cmake -G Ninja -B _build -S . -DHFSM2_BUILD_TESTS=ON >/dev/null && cmake --build _build 2>&1 | tail -2 && ctest --test-dir _build --timeout 900 2>&1 | grep "tests passed" ) || { echo "SUITE FAILS"; }
g++ -std=c++11 -I $W/include _seed/demo.cpp -o _seed/demo_changed 2>&1 | tail -3; ./_seed/demo_changed >/dev/null 2>&1; echo "demo with change: exit $?"
git apply -R _seed/patch.diff && g++ -std=c++11 -I $W/include _seed/demo.cpp -o _seed/demo_orig 2>&1 | tail -3; ./_seed/demo_orig >/dev/null 2>&1; echo "demo without change: exit $?"
git apply _seed/patch.diff
rm -rf _build _seed/demo_changed _seed/demo_orig
