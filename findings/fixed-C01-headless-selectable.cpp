#define HFSM2_ENABLE_ASSERT
#define HFSM2_ENABLE_PLANS
#include <cassert>
#include <cstdlib>
extern "C" void hfsm2_verif_break() { abort(); }
#include <hfsm2/machine.hpp>
#include <cstdio>
using M = hfsm2::MachineT<hfsm2::Config::ManualActivation>;
template<int I> struct St;
using FSM = M::SelectablePeerRoot<M::CompositePeers<M::SelectablePeers<St<3>, St<4>>, M::SelectablePeers<St<6>,St<7>,St<8>,St<9>>, St<10>>>;
template<int I> struct St : FSM::State {};
int main(){ FSM::Instance f; f.enter(); printf("active root %d\n", f.isActive(0)); for (int d=1; d<11; ++d){ f.immediateChangeTo(d); printf("%d:%d ", d, f.isActive(d)); } puts(""); }
