// C19 (pool part): TaskListT<Payload, CAP> against the ideal-pool view.      Tier A, DESIGN.md 4.1
// Contracts are in harness form: requires = TL_wf + op precondition, ensures = view postconditions + TL_wf.
#define HFSM2_ENABLE_PLANS
#include "common/verif.hpp"
using namespace hfsm2; using namespace hfsm2::detail;
#ifndef CAP
#define CAP 4
#endif
#ifdef PAYLOAD_INT
using PL = int32_t;
#else
using PL = void;
#endif
using TL = TaskListT<PL, CAP>;
static constexpr Long INV = TL::INVALID;

// ---- abstract view: the set of vacant slots, read off the representation
static bool TL_vacant(const TL* l, Long i) {
  if (l->_count >= CAP) return false;
  if (l->_count == 0 && l->_last == 0 && l->_vacantHead == 0 && l->_vacantTail == 0) return true;   // new or just cleared
  if (l->_last < CAP && i > l->_last) return true;         // never touched
  Long c = l->_vacantHead;
  for (unsigned k = 0; k < CAP; ++k) {
    if (c == i) return true;
    if (c == l->_vacantTail) return false;
    c = l->_items[c].next;
    if (c >= CAP) return false;
  }
  return false;
}
// ---- representation invariant.  Two shapes are reachable: the linked shape below, and the state right after
// clear(), which resets the four control fields but leaves slot 0's links stale (they are overwritten by the
// next insert before anything reads them; only insert is possible on an empty pool).
static bool TL_wf_linked(const TL* l);
static bool TL_cleared(const TL* l) { return l->_vacantHead == 0 && l->_vacantTail == 0 && l->_last == 0 && l->_count == 0; }
static bool TL_wf(const TL* l) { return TL_cleared(l) || TL_wf_linked(l); }
static bool TL_wf_linked(const TL* l) {
  if (l->_count > CAP) return false;
  if (l->_count == CAP) return l->_vacantHead == INV && l->_vacantTail == INV && l->_last == CAP;
  if (l->_vacantHead >= CAP || l->_vacantTail >= CAP) return false;
  if (l->_last >= CAP && l->_last != CAP) return false;
  Long c = l->_vacantHead, prev = INV; unsigned n = 1; bool reached = false;
  bool seen[CAP] = {};
  for (unsigned k = 0; k < CAP; ++k) {
    if (c >= CAP || seen[c]) return false;
    if (l->_last < CAP && c > l->_last) return false;
    seen[c] = true;
    if (l->_items[c].prev != prev) return false;
    if (c == l->_vacantTail) { reached = true; break; }
    prev = c; c = l->_items[c].next; ++n;
  }
  if (!reached) return false;
  if (l->_items[l->_vacantTail].next != INV) return false;
  if (l->_last < CAP && l->_vacantTail != l->_last) return false;   // the high-water slot ends the chain while the pool still grows
  unsigned untouched = l->_last < CAP ? CAP - 1 - l->_last : 0;
  return l->_count + n + untouched == CAP;
}
static unsigned TL_live(const TL* l) { unsigned n = 0; for (Long i = 0; i < CAP; ++i) if (!TL_vacant(l, i)) ++n; return n; }

#ifdef PAYLOAD_INT
static bool memcmp_free_eq(const TL& a, const TL& b, Long j);
#endif
static bool same_item(const TL& a, const TL& b, Long j) {
  bool r = a._items[j].origin == b._items[j].origin && a._items[j].destination == b._items[j].destination && a._items[j].type == b._items[j].type;
#ifdef PAYLOAD_INT
  r = r && a._items[j].payloadSet == b._items[j].payloadSet && memcmp_free_eq(a, b, j);
#endif
  return r;
}
static Long do_emplace(TL& l, StateID o, StateID d, TransitionType t, int32_t p) {
#ifdef PAYLOAD_INT
  return l.emplace(o, d, t, p);
#else
  (void) p; return l.emplace(o, d, t);
#endif
}
#ifdef PAYLOAD_INT
static bool memcmp_free_eq(const TL& a, const TL& b, Long j) {
  for (unsigned k = 0; k < sizeof(int32_t); ++k) if (a._items[j].storage[k] != b._items[j].storage[k]) return false;
  return true;
}
#endif

extern "C" void proof_init() {
  TL l;
  VASSERT(C19/C11, TL_wf(&l), "new pool is well-formed");
  VASSERT(C19, l.count() == 0 && l.empty(), "new pool is empty");
  Long j = nd_u16(); VASSUME(j < CAP);
  VASSERT(C19, TL_vacant(&l, j), "new pool: every slot is free");
}

extern "C" void proof_emplace() {
  TL l; nd_obj(l);
  VASSUME(TL_wf(&l));
  VASSUME(l._count < CAP);                       // call-site precondition (PlanT::append tests count() first)
  VREACH("emplace, not full");
  TL old = l;
  StateID o = nd_u16(), d = nd_u16(); int32_t p = nd_i32();
  TransitionType t = (TransitionType) nd_u8(); VASSUME((unsigned) t < (unsigned) TransitionType::COUNT);
  Long r = do_emplace(l, o, d, t, p);
  VASSERT(C19, r < CAP, "insert returns a slot in range");
  VASSERT(C19, TL_vacant(&old, r), "insert returns a slot that was not in use");
  VASSERT(C19, l.count() == old._count + 1, "insert: count + 1");
  VASSERT(C19, l._items[r].origin == o && l._items[r].destination == d && l._items[r].type == t, "insert stores the item");
#ifdef PAYLOAD_INT
  VASSERT(C19, l._items[r].payload() != nullptr && *l._items[r].payload() == p, "insert stores the payload");
#endif
  VASSERT(C19, !TL_vacant(&l, r), "inserted slot is live");
  Long j = nd_u16(); VASSUME(j < CAP && j != r);
  VASSERT(C19, TL_vacant(&l, j) == TL_vacant(&old, j), "insert: other slots keep their status");
  if (!TL_vacant(&old, j)) VASSERT(C19, same_item(l, old, j), "insert: live items keep their contents");
  VASSERT(C19/C11, TL_wf(&l), "insert preserves the representation invariant");
  VASSERT(C19, l.count() == TL_live(&l), "count is the number of live slots");
}

#ifdef PAYLOAD_INT
// an insert WITHOUT payload into a pool of payload-carrying tasks: the slot (possibly recycled) must expose none
extern "C" void proof_emplace_plain() {
  TL l; nd_obj(l);
  VASSUME(TL_wf(&l)); VASSUME(l._count < CAP);
  TL old = l;
  StateID o = nd_u16(), d = nd_u16();
  Long r = l.emplace(o, d, TransitionType::CHANGE);
  VASSERT(C19, r < CAP && TL_vacant(&old, r) && l.count() == old._count + 1, "insert without payload: free slot, count + 1");
  VASSERT(C19/C14, l._items[r].origin == o && l._items[r].destination == d && l._items[r].payload() == nullptr, "insert without payload stores the item and exposes no payload, whatever the slot held before");
  VASSERT(C19/C11, TL_wf(&l), "insert without payload preserves the representation invariant");
}
#endif

extern "C" void proof_emplace_full() {
  TL l; nd_obj(l);
  VASSUME(TL_wf(&l));
  VASSUME(l._count == CAP);
  VREACH("emplace, full");
  TL old = l;
  StateID o = nd_u16(), d = nd_u16(); int32_t p = nd_i32();   // one draw per statement: argument evaluation order is unspecified
  Long r = do_emplace(l, o, d, TransitionType::CHANGE, p);
  VASSERT(C19, r == INV, "insert into a full pool fails");
  VASSERT(C19/C11, l.count() == CAP && TL_wf(&l), "failed insert leaves a well-formed full pool");
  Long j = nd_u16(); VASSUME(j < CAP);
  VASSERT(C19, !TL_vacant(&l, j) && same_item(l, old, j), "failed insert leaves every item untouched");
}

extern "C" void proof_remove() {
  TL l; nd_obj(l);
  VASSUME(TL_wf(&l));
  Long i = nd_u16(); VASSUME(i < CAP && !TL_vacant(&l, i));
  VREACH("remove a live slot");
  if (l._count == CAP) VREACH("remove from a full pool");
  TL old = l;
  l.remove(i);
  VASSERT(C19, TL_vacant(&l, i), "remove frees exactly that slot");
  VASSERT(C19, l.count() == old._count - 1, "remove: count - 1");
  Long j = nd_u16(); VASSUME(j < CAP && j != i);
  VASSERT(C19, TL_vacant(&l, j) == TL_vacant(&old, j), "remove: other slots keep their status");
  if (!TL_vacant(&old, j)) VASSERT(C19, same_item(l, old, j), "remove: live items keep their contents");
  VASSERT(C19/C11, TL_wf(&l), "remove preserves the representation invariant");
  VASSERT(C19, l.count() == TL_live(&l), "count is the number of live slots");
}

extern "C" void proof_clear() {
  TL l; nd_obj(l);                                 // any contents, well-formed or not
  l.clear();
  TL fresh;
  VASSERT(C19/C11, TL_wf(&l) && l.count() == 0 && l.empty(), "clear: empty and well-formed");
  VASSERT(C19, l._vacantHead == fresh._vacantHead && l._vacantTail == fresh._vacantTail && l._last == fresh._last && l._count == fresh._count,
          "after clear the pool behaves as new (same control state as a new pool)");
  Long j = nd_u16(); VASSUME(j < CAP);
  VASSERT(C19, TL_vacant(&l, j), "clear: every slot is free");
  Long r = do_emplace(l, 1, 2, TransitionType::CHANGE, 7);
  VASSERT(C19/C11, r == 0 && l.count() == 1 && TL_wf(&l), "clear: next insert succeeds as on a new pool");
  // a cleared pool takes CAPACITY inserts, each into a valid slot (the safety checks of C11 ride on these calls)
  bool ok = true;
  for (unsigned k = 1; k < CAP; ++k) { Long q = do_emplace(l, 1, 2, TransitionType::CHANGE, 7); ok = ok && q < CAP; }
  VASSERT(C19/C11, ok && l.count() == CAP && TL_wf(&l), "after clear the pool accepts CAPACITY inserts, each into a slot inside the pool");
}

// copying a pool (the machine instance is copyable) yields the same pool: same free slots, same live items, same future behaviour
extern "C" void proof_copy() {
  TL l; nd_obj(l);
  VASSUME(TL_wf(&l));
  VREACH("arbitrary well-formed pool");
  if (l._count > 0 && l._count < CAP) VREACH("pool with holes");
  TL c = l;
  TL a; a = l;
  VASSERT(C19/C10, TL_wf(&c) && c.count() == l.count() && TL_wf(&a) && a.count() == l.count(), "a copy of a pool is a well-formed pool with the same count");
  Long j = nd_u16(); VASSUME(j < CAP);
  VASSERT(C19/C10, TL_vacant(&c, j) == TL_vacant(&l, j) && TL_vacant(&a, j) == TL_vacant(&l, j), "a copy has the same free and live slots");
  if (!TL_vacant(&l, j)) VASSERT(C19/C10, same_item(c, l, j) && same_item(a, l, j), "a copy holds the same live items");
  if (l._count < CAP) { StateID o = nd_u16(); Long r1 = do_emplace(l, o, 1, TransitionType::CHANGE, 3); Long r2 = do_emplace(c, o, 1, TransitionType::CHANGE, 3);
    VASSERT(C19/C10, r1 == r2, "a copy continues exactly as the original: the next insert returns the same slot"); }
}

extern "C" void proof_access() {
  TL l; nd_obj(l);
  VASSUME(TL_wf(&l));
  Long i = nd_u16(); VASSUME(i < CAP && !TL_vacant(&l, i));      // operator[] addresses stored tasks (call sites: plan iteration, updatePlan)
  VREACH("access to a live slot");
  const TL& cl = l;
  VASSERT(C19, &l[i] == &l._items[i] && &cl[i] == &l._items[i], "operator[] addresses slot i");
}

// ---- C-linkage faces of the invariant / view for the spliced code contracts (contracts/tasklist.spec), and the dfcc entry points
static_assert(__builtin_offsetof(TL, _count) == 3 * sizeof(Long) && sizeof(Long) == 2, "contracts/tasklist.spec addresses TaskListT::_count as field f3 of the lowered record");
extern "C" {
bool tl_wf(const TL* l) { return TL_wf(l); }
bool tl_vacant(const TL* l, unsigned short i) { return TL_vacant(l, i); }
unsigned tl_count(const TL* l) { return l->_count; }
unsigned tl_capacity(void) { return CAP; }
bool tl_item_is(const TL* l, unsigned short i, unsigned short o, unsigned short d, TransitionType t) { return i < CAP && l->_items[i].origin == o && l->_items[i].destination == d && l->_items[i].type == t; }
// ghost slot of the frame clauses in contracts/tasklist.spec (an arbitrary slot, its vacancy and - when live - its contents)
unsigned short tl_ghost, tl_ghost_o, tl_ghost_d; unsigned char tl_ghost_vacant; TransitionType tl_ghost_t;
static void tl_ghost_any() { tl_ghost = nd_u16(); tl_ghost_o = nd_u16(); tl_ghost_d = nd_u16(); tl_ghost_vacant = nd_u8() & 1; tl_ghost_t = (TransitionType) nd_u8(); }
void dfcc_tl_remove()  { TL l; tl_ghost_any(); l.remove(nd_u16()); VREACH("the contract's precondition is satisfiable: the call returns"); }
void dfcc_tl_clear()   { TL l; l.clear(); VREACH("the contract's precondition is satisfiable: the call returns"); }
#ifndef PAYLOAD_INT
void dfcc_tl_emplace() { TL l; tl_ghost_any(); StateID o = nd_u16(); StateID d = nd_u16(); l.emplace(o, d, TransitionType::CHANGE); VREACH("the contract's precondition is satisfiable: the call returns"); }
// a caller verified against the CONTRACTS of its callees (their bodies are not looked at): fill a pool, drain it, it is empty and well-formed
void dfcc_tl_client() {
  TL l;
  StateID o = nd_u16(); StateID d = nd_u16();
  tl_ghost = 0; tl_ghost_vacant = 1;                                     // slot 0 of a new pool is vacant
  const Long a = l.emplace(o, d, TransitionType::CHANGE);
  __CPROVER_assert(a < CAP, "C19: client: insert into a new pool succeeds");
#if CAP >= 2
  // the frame clauses, instantiated for slot a: a second insert neither returns a nor disturbs it, and removing the second leaves a live and intact
  StateID o2 = nd_u16(); StateID d2 = nd_u16();
  tl_ghost = a; tl_ghost_vacant = 0; tl_ghost_o = o; tl_ghost_d = d; tl_ghost_t = TransitionType::CHANGE;
  const Long b = l.emplace(o2, d2, TransitionType::RESTART);
  __CPROVER_assert(b != a && b < CAP, "C19: client: insert returns a slot not in use (by the callee contract alone)");
  __CPROVER_assert(!tl_vacant(&l, a) && tl_item_is(&l, a, o, d, TransitionType::CHANGE), "C19: client: a live item keeps its contents across an insert (by the callee contract alone)");
  l.remove(b);
  __CPROVER_assert(!tl_vacant(&l, a) && tl_item_is(&l, a, o, d, TransitionType::CHANGE) && tl_vacant(&l, b), "C19: client: remove frees exactly the addressed slot (by the callee contract alone)");
  tl_ghost = b; tl_ghost_vacant = 1;                                     // ... and now instantiated for the vacant slot b
#endif
  const unsigned n = l.count();
  l.remove(a);
#if CAP >= 2
  __CPROVER_assert(tl_vacant(&l, b), "C19: client: a vacant slot stays vacant across a remove (by the callee contract alone)");
#endif
  __CPROVER_assert(l.count() + 1 == n && tl_wf(&l), "C19: client: remove undoes the insert (by the callee contracts alone)");
  VREACH("the callee contracts are consistent: the client reaches its end");
}
#endif
}

// ---- differential driver (translation validation): random operation sequence from a new pool
extern "C" void verif_drive() {
  TL l; bool live[CAP] = {};
  for (int step = 0; step < 400; ++step) {
    unsigned op = nd_u8() % 8;
    if (op < 4) { if (l.count() < CAP) { StateID o = nd_u16(); StateID d = nd_u16(); TransitionType t = (TransitionType)(nd_u8() % 7); int32_t p = nd_i32();
                                         Long r = do_emplace(l, o, d, t, p); verif_observe(r); if (r < CAP) live[r] = true; } }
    else if (op < 7) { Long i = nd_u16() % CAP; if (live[i]) { l.remove(i); live[i] = false; } }
    else if (nd_u8() % 16 == 0) { l.clear(); for (auto& b : live) b = false; }
    verif_observe(l.count()); verif_observe(l._vacantHead); verif_observe(l._vacantTail); verif_observe(l._last);
    for (Long i = 0; i < CAP; ++i) if (live[i]) { verif_observe(l[i].origin); verif_observe(l[i].destination); verif_observe((uint64_t) l[i].type); }
  }
}
