#define HFSM2_ENABLE_UTILITY_THEORY
#include <hfsm2/machine.hpp>
#include <cstdio>
#include <cstring>
#include <new>
using M = hfsm2::Machine;
struct A; struct B; struct C; struct D;
using FSM = M::RandomPeerRoot<A, B, C, D>;
struct A:FSM::State{}; struct B:FSM::State{}; struct C:FSM::State{}; struct D:FSM::State{};
static int first_active(unsigned char fill) {
  alignas(FSM::Instance) static unsigned char mem[sizeof(FSM::Instance)];
  memset(mem, fill, sizeof mem);
  FSM::Instance* f = new (mem) FSM::Instance();
  int r = f->isActive<A>() ? 0 : f->isActive<B>() ? 1 : f->isActive<C>() ? 2 : f->isActive<D>() ? 3 : -1;
  f->~InstanceT();
  return r;
}
int main(){
  int base = first_active(0), diff = 0;
  for (int fill = 1; fill < 256; ++fill) { int r = first_active((unsigned char) fill); if (r != base) { ++diff; if (diff < 4) printf("storage filled with 0x%02x: initially active sub-state #%d, with 0x00: #%d\n", fill, r, base); } }
  printf("%d of 255 fill patterns change the initial activation\n", diff);
  return diff ? 1 : 0;
}
