// Tier B (DESIGN.md 4.2): RegistryT over SYMBOLIC structure tables -- every tree shape that fits the capacities.
// Serves C13 (query consistency), C01/C02 (requestImmediate/requestScheduled/clear), C04 (backup/restore/!=).
#define HFSM2_ENABLE_PLANS
#define HFSM2_ENABLE_SERIALIZATION
#define HFSM2_ENABLE_TRANSITION_HISTORY
#define HFSM2_ENABLE_UTILITY_THEORY
#include "common/verif.hpp"
using namespace hfsm2; using namespace hfsm2::detail;
struct Rng { float next() { return 0.5f; } };
using Cfg = hfsm2::Config::ManualActivation::RandomT<Rng>;
using M = hfsm2::MachineT<Cfg>;
#define S(s) struct s
#ifdef NO_ORTHO   // second specialisation of RegistryT (ORTHO_COUNT == 0): 8 states, 3 composite forks
using FSM = M::PeerRoot< S(A), M::Composite<S(B), S(B1), M::Resumable<S(R), S(R1), S(R2)>>, S(C) >;
struct A : FSM::State {}; struct B : FSM::State {}; struct B1 : FSM::State {}; struct R : FSM::State {}; struct R1 : FSM::State {}; struct R2 : FSM::State {}; struct C : FSM::State {};
#elif defined TWO_ORTHO   // general specialisation with two orthogonal forks (orthogonal inside orthogonal is a legal table): 10 states, 2 composite, 2 orthogonal
using FSM = M::PeerRoot< S(A), M::Orthogonal<S(O), M::Orthogonal<S(O2), S(L1), S(L2)>, M::Composite<S(C), S(C1), S(C2)>>, S(B) >;
struct A : FSM::State {}; struct O : FSM::State {}; struct O2 : FSM::State {}; struct L1 : FSM::State {}; struct L2 : FSM::State {};
struct C : FSM::State {}; struct C1 : FSM::State {}; struct C2 : FSM::State {}; struct B : FSM::State {};
#else             // general specialisation: 10 states, 3 composite forks, 1 orthogonal fork
using FSM = M::PeerRoot< S(A), M::Composite<S(B), S(B1), S(B2)>, M::Orthogonal<S(O), S(O1), M::Resumable<S(R), S(R1), S(R2)>> >;
struct A : FSM::State {}; struct B : FSM::State {}; struct B1 : FSM::State {}; struct B2 : FSM::State {};
struct O : FSM::State {}; struct O1 : FSM::State {}; struct R : FSM::State {}; struct R1 : FSM::State {}; struct R2 : FSM::State {};
#endif
using Registry = FSM::Instance::Registry;
static constexpr int NS = Registry::STATE_COUNT, NC = Registry::COMPO_COUNT;
#ifdef NO_ORTHO
static constexpr int NO = 0, NU = 0;
#else
static constexpr int NO = Registry::ORTHO_COUNT, NU = Registry::ORTHO_UNITS;
#endif
static constexpr int DEPTH = NC + NO;          // longest possible ancestor chain of forks
static constexpr Prong WMAX = 8;               // widest region considered for composite prongs

// ---- ghost: acyclicity witness (rank decreases towards the root) and the head state of every fork
struct Ghost { uint8_t crank[NC]; uint8_t orank[NO ? NO : 1]; StateID chead[NC]; StateID ohead[NO ? NO : 1]; };

static Prong owidth(const Registry& r, int o) {
#ifdef NO_ORTHO
  (void) r; (void) o; return 0;
#else
  return (Prong) r.orthoUnits[o].width;
#endif
}
static Parent oparent(const Registry& r, int o) {
#ifdef NO_ORTHO
  (void) r; (void) o; return Parent{};
#else
  return r.orthoParents[o];
#endif
}
static bool eqp(const Parent a, const Parent b) { return a.forkId == b.forkId && a.prong == b.prong; }
static bool is_root(const Parent p) { return p.forkId == INVALID_FORK_ID; }
static bool wf_link(const Registry& r, const Ghost& g, const Parent p, unsigned childRank) {
  if (p.forkId == INVALID_FORK_ID) return p.prong == INVALID_PRONG;
  if (p.forkId > 0) return p.forkId <= NC && p.prong < WMAX && g.crank[p.forkId - 1] < childRank;
  if (p.forkId < 0) return -p.forkId <= NO && p.prong < owidth(r, -p.forkId - 1) && g.orank[-p.forkId - 1] < childRank;
  return false;
}
// well-formed structure tables (what deepRegister() builds; premise checked per sample machine in Tier C)
static bool wf_tree(const Registry& r, const Ghost& g) {
  if (!is_root(r.stateParents[0])) return false;                                   // state 0 is the root
  for (int s = 1; s < NS; ++s) { if (is_root(r.stateParents[s]) || !wf_link(r, g, r.stateParents[s], 255)) return false; }
  int roots = 0;
  for (int c = 0; c < NC; ++c) {
    if (g.crank[c] > DEPTH || !wf_link(r, g, r.compoParents[c], g.crank[c])) return false;
    if (g.chead[c] >= NS - 1 || !eqp(r.stateParents[g.chead[c]], r.compoParents[c])) return false;   // the fork hangs where its head state hangs
    const Parent first = r.stateParents[g.chead[c] + 1];
    if (first.forkId != c + 1 || first.prong != 0) return false;                   // first sub-state follows the head
    if (is_root(r.compoParents[c])) ++roots;
  }
  for (int o = 0; o < NO; ++o) {
    if (g.orank[o] > DEPTH || !wf_link(r, g, oparent(r, o), g.orank[o])) return false;
    if (g.ohead[o] >= NS - 1 || !eqp(r.stateParents[g.ohead[o]], oparent(r, o))) return false;
    const Parent first = r.stateParents[g.ohead[o] + 1];
    if (first.forkId != -(o + 1) || first.prong != 0) return false;
#ifndef NO_ORTHO
    const Units u = r.orthoUnits[o]; if (u.width < 1 || u.unit + (u.width + 7) / 8 > NU) return false;
#endif
    if (is_root(oparent(r, o))) ++roots;
  }
  if (roots != 1) return false;                                                     // exactly one fork is the root's
  for (int c = 0; c < NC; ++c) if (is_root(r.compoParents[c]) && g.chead[c] != 0) return false;
  for (int o = 0; o < NO; ++o) if (is_root(oparent(r, o)) && g.ohead[o] != 0) return false;
  // the first composite fork in id order hangs under orthogonal forks only (isActive() reads it as "the machine is active")
  Parent p = r.compoParents[0];
  for (int k = 0; k <= DEPTH; ++k) { if (is_root(p)) break; if (p.forkId > 0) return false; p = oparent(r, -p.forkId - 1); }
  return true;
}
static Parent fparent(const Registry& r, ForkID f) { return f > 0 ? r.compoParents[f - 1] : oparent(r, -f - 1); }
// nearest composite ancestor link of a link (itself if composite); invalid if only orthogonal forks up to the root
static Parent compo_link(const Registry& r, Parent p) {
  for (int k = 0; k <= DEPTH; ++k) { if (is_root(p) || p.forkId > 0) return p; p = fparent(r, p.forkId); }
  return Parent{};
}
// ---- C01 registry invariant: an inactive region has no active prong; active prongs in range
static bool spec_link_active(const Registry& r, Parent p) {       // "the state hanging at link p is active", by recursion over ancestors
  for (int k = 0; k <= DEPTH; ++k) {
    if (is_root(p)) return r.compoActive[0] != INVALID_PRONG;
    if (p.forkId > 0) { if (r.compoActive[p.forkId - 1] != p.prong) return false; p = r.compoParents[p.forkId - 1]; }
    else p = oparent(r, -p.forkId - 1);
  }
  return false;
}
static bool inv_active(const Registry& r) {
  for (int c = 0; c < NC; ++c) {
    const Prong a = r.compoActive[c];
    if (a != INVALID_PRONG && a >= WMAX) return false;
    const bool head_active = spec_link_active(r, r.compoParents[c]);
    if ((a != INVALID_PRONG) != head_active) return false;       // region has an active prong  <=>  its head is active
  }
  return true;
}
static void nd_registry(Registry& r, Ghost& g) { nd_obj(r); nd_obj(g); }

// ------------------------------------------------------------------------------------------ C13 (i)(ii), C01
extern "C" void proof_activity_queries() {
  Registry r; Ghost g; nd_registry(r, g);
  VASSUME(wf_tree(r, g)); VASSUME(inv_active(r));
  VREACH("well-formed tree with a consistent configuration");
  if (r.compoActive[0] != INVALID_PRONG) VREACH("activated machine");
  StateID s = nd_u16(); VASSUME(s < NS);
  const Parent p = r.stateParents[s];
  VASSERT(C13/C01, r.isActive(s) == spec_link_active(r, p), "isActive(s) <=> s and all its ancestors hold the active prongs");
  VASSERT(C01, r.isActive(0) == r.isActive() && r.isActive() == (r.compoActive[0] != INVALID_PRONG), "the root is active exactly when the machine is activated");
  if (s > 0) {
    const StateID ps = p.forkId > 0 ? g.chead[p.forkId - 1] : g.ohead[-p.forkId - 1];     // parent state
    VASSERT(C01, !r.isActive(s) || r.isActive(ps), "a state is active only if its parent is");
    if (p.forkId < 0) VASSERT(C01, r.isActive(s) == r.isActive(ps), "every sub-state of an active orthogonal region is active");
    if (p.forkId > 0) {
      VASSERT(C13, r.activeSubState(ps) == r.compoActive[p.forkId - 1], "activeSubState(region) is the index stored for the region's fork");
      VASSERT(C13/C01, r.isActive(s) == (r.isActive(ps) && r.activeSubState(ps) == p.prong), "isActive(sub k of r) <=> r active and activeSubState(r) == k");
      VASSERT(C13/C01, r.isActive(ps) == (r.activeSubState(ps) != INVALID_PRONG), "activeSubState(r) is invalid exactly while r is inactive");
    }
  }
  // resumable: reported for s <=> the nearest composite region above s remembers s's branch
  const Parent cl = compo_link(r, p);
  VASSERT(C13, r.isResumable(s) == (cl.forkId > 0 && r.compoResumable[cl.forkId - 1] == cl.prong), "isResumable(s) <=> the enclosing composite region remembers s's prong");
}
// a leaf or orthogonal head has no "active sub-state"
extern "C" void proof_active_sub_other() {
  Registry r; Ghost g; nd_registry(r, g);
  VASSUME(wf_tree(r, g)); VASSUME(inv_active(r));
  StateID s = nd_u16(); VASSUME(s + 1 < NS);        // (the last state can head no region; the library treats the question as a caller error: HFSM2_CHECKED)
  VREACH("any state but the last");
  bool compo_head = false; for (int c = 0; c < NC; ++c) compo_head = compo_head || g.chead[c] == s;
  const Prong a = r.activeSubState(s);
  if (compo_head) { int c = 0; for (int k = 0; k < NC; ++k) if (g.chead[k] == s) c = k; VASSERT(C13, a == r.compoActive[c], "activeSubState(head of composite fork c) == active prong of c"); }
}
// ------------------------------------------------------------------------------------------ C13 (iii): nothing pending
extern "C" void proof_pending_none() {
  Registry r; Ghost g; nd_registry(r, g);
  VASSUME(wf_tree(r, g)); VASSUME(inv_active(r));
  r.clearRequests();                                   // the state between processing steps: nothing requested
  StateID s = nd_u16(); VASSUME(s < NS);
  VASSERT(C13, !r.isPendingEnter(s), "nothing pending: isPendingEnter is false");
  VASSERT(C13, !r.isPendingExit(s), "nothing pending: isPendingExit is false");
  VASSERT(C13, !r.isPendingChange(s), "nothing pending: isPendingChange is false");
}
// isPendingChange is exactly isPendingEnter or isPendingExit (for any pending registry contents)
extern "C" void proof_pending_relation() {
  Registry r; Ghost g; nd_registry(r, g);
  VASSUME(wf_tree(r, g));
  StateID s = nd_u16(); VASSUME(s < NS);
  const bool e = r.isPendingEnter(s), x = r.isPendingExit(s), c = r.isPendingChange(s);
  VASSERT(C13, !(e && x), "a state is never pending enter and pending exit at once");
  VASSERT(C13, !(e || x) || c, "pending enter or exit implies pending change");
  VASSERT(C13, !c || e || x, "pending change implies pending enter or exit");
  // view: the BRANCH of the nearest composite region above s that leads to s (orthogonal forks in between are transparent)
  Parent p = r.stateParents[s]; bool found = false;
  for (int k = 0; k <= DEPTH + 1 && !found; ++k) {
    if (is_root(p)) break;
    if (p.forkId > 0) found = true; else p = oparent(r, -p.forkId - 1);
  }
  if (found) {
    VREACH("state below a composite region");
    const Prong act = r.compoActive[p.forkId - 1], req = r.compoRequested[p.forkId - 1];
    VASSERT(C13, e == (p.prong != act && p.prong == req), "isPendingEnter(s) <=> the nearest composite region above s is asked to switch TO the branch that leads to s");
    VASSERT(C13, !(req != INVALID_PRONG) || x == (p.prong == act && p.prong != req), "isPendingExit(s) <=> that region sits on the branch that leads to s and is asked to switch away (regions with a pending request)");
  } else VASSERT(C13, !e && !x && !c, "a state with no composite region above it is never pending");
}
// ------------------------------------------------------------------------------------------ C02/C01: requestImmediate
// spec of one request, written from the statement: the destination and all its ancestors become targets.
extern "C" void proof_request_immediate() {
  Registry r; Ghost g; nd_registry(r, g);
  VASSUME(wf_tree(r, g)); VASSUME(inv_active(r));
  for (int c = 0; c < NC; ++c) VASSUME(r.compoRequested[c] == INVALID_PRONG || r.compoRequested[c] < WMAX);
  Registry old = r;
  Registry::Transition t; t.destination = nd_u16(); t.type = TransitionType::CHANGE;
  VASSUME(t.destination > 0 && t.destination < NS);
  VREACH("request");
  r.requestImmediate(t);
  // walk the spec path
  Parent p = r.stateParents[t.destination];
  bool first_compo = true;
  int c_probe = nd_u8(); VASSUME(c_probe < NC);       // ghost: any composite fork
  bool on_path = false; Prong path_prong = INVALID_PRONG;
  bool settled = false;                               // an ancestor below already sits on the path with nothing else requested there
  for (int k = 0; k <= DEPTH + 1; ++k) {
    if (is_root(p)) break;
    if (p.forkId > 0) {
      const int c = p.forkId - 1;
      const Prong req = r.compoRequested[c];
      if (first_compo) VASSERT(C02, req == p.prong, "the destination's region targets the destination's branch");
      else {
        VASSERT(C02, r.compoRemains.get(c), "every composite ancestor above the destination's region is marked as remaining");
        if (!settled) {
          // up to and including the first ancestor that is already on the path, the walk must (re-)target the path
          VASSERT(C02, req == p.prong || (req == INVALID_PRONG && old.compoActive[c] == p.prong),
                  "every ancestor region targets the branch towards the destination, unless that branch is active and nothing else is requested there");
          if (old.compoActive[c] == p.prong && (old.compoRequested[c] == p.prong || old.compoRequested[c] == INVALID_PRONG)) settled = true;
        } else {
          // above it: the active configuration is on the path already (inv_active); only an EARLIER request of the same batch can point elsewhere
          VASSERT(C02, req == old.compoRequested[c], "above the first ancestor that is already on the path, pending requests are left as they are");
          VASSERT(C02, req == p.prong || req == INVALID_PRONG,
                  "a later request overrides an earlier conflicting one at every ancestor region (also above an ancestor that is already on the path)");
        }
      }
      if (c == c_probe) { on_path = true; path_prong = p.prong; }
      first_compo = false;
      p = r.compoParents[c];
    } else {
#ifndef NO_ORTHO
      VASSERT(C02, r.orthoRequested.bits(r.orthoUnits[-p.forkId - 1]).get(p.prong), "every orthogonal ancestor has the branch towards the destination requested");
#endif
      p = oparent(r, -p.forkId - 1);
    }
  }
  // frame: forks that are not ancestors of the destination keep their request; active and resumable are never touched
  if (!on_path) VASSERT(C02, r.compoRequested[c_probe] == old.compoRequested[c_probe] && r.compoRemains.get(c_probe) == old.compoRemains.get(c_probe), "forks off the destination's path keep their pending request");
  VASSERT(C02, r.compoActive[c_probe] == old.compoActive[c_probe] && r.compoResumable[c_probe] == old.compoResumable[c_probe], "requesting changes neither active nor resumable prongs");
  (void) path_prong;
}
// requestScheduled: "given by schedule" resumable
extern "C" void proof_request_scheduled() {
  Registry r; Ghost g; nd_registry(r, g);
  VASSUME(wf_tree(r, g));
  Registry old = r;
  StateID s = nd_u16(); VASSUME(s > 0 && s < NS);
  r.requestScheduled(s);
  const Parent p = r.stateParents[s];
  int c = nd_u8(); VASSUME(c < NC);
  if (p.forkId > 0 && p.forkId - 1 == c) VASSERT(C02, r.compoResumable[c] == p.prong, "schedule(s) makes s the resumable sub-state of its region");
  else VASSERT(C02, r.compoResumable[c] == old.compoResumable[c], "schedule(s) leaves other regions' resumable sub-states alone");
  VASSERT(C02, r.compoActive[c] == old.compoActive[c] && r.compoRequested[c] == old.compoRequested[c], "schedule(s) neither activates nor requests anything");
  if (p.forkId > 0) VASSERT(C13, r.isResumable(s), "a scheduled state is reported resumable");
}
// ------------------------------------------------------------------------------------------ C04: backup / restore / != ;  C01: clear
extern "C" void proof_backup_restore() {
  Registry r; Ghost g; nd_registry(r, g);
  Registry::BackUp b;
  r.backup(b);
  VASSERT(C04, !(r != b), "a registry equals its own backup");
  Registry old = r;
  int c = nd_u8(); VASSUME(c < NC);
  // perturb the pending part arbitrarily
  for (int k = 0; k < NC; ++k) r.compoRequested[k] = nd_u8();
#ifndef NO_ORTHO
  for (int u = 0; u < NU; ++u) r.orthoRequested._storage[u] = nd_u8();
#endif
  bool differs = false;
  for (int k = 0; k < NC; ++k) differs = differs || r.compoRequested[k] != old.compoRequested[k];
#ifndef NO_ORTHO
  for (int u = 0; u < NU; ++u) differs = differs || r.orthoRequested._storage[u] != old.orthoRequested._storage[u];
#endif
  VASSERT(C04, (r != b) == differs, "registry != backup <=> some requested prong or orthogonal request bit differs");
  r.restore(b);
  VASSERT(C04, r.compoRequested[c] == old.compoRequested[c] && !(r != b), "restore brings back the pending requests saved by backup");
  VASSERT(C04, r.compoActive[c] == old.compoActive[c] && r.compoResumable[c] == old.compoResumable[c], "backup/restore never touch active or resumable prongs");
}
extern "C" void proof_clear() {
  Registry r; Ghost g; nd_registry(r, g);
  Registry old = r;
  int c = nd_u8(); VASSUME(c < NC);
  r.clearRequests();
  VASSERT(C01, r.compoRequested[c] == INVALID_PRONG && r.orthoRequested.empty() && r.compoRemains.empty(), "clearRequests leaves nothing pending");
  VASSERT(C01, r.compoActive[c] == old.compoActive[c] && r.compoResumable[c] == old.compoResumable[c], "clearRequests keeps the configuration");
  r.clear();
  VASSERT(C01, r.compoActive[c] == INVALID_PRONG && r.compoResumable[c] == INVALID_PRONG && r.empty() && !r.isActive(), "clear: nothing active, nothing resumable, nothing pending");
}
