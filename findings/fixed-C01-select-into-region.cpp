#include <hfsm2/machine.hpp>
#include <stdio.h>
using M = hfsm2::MachineT<hfsm2::Config>;
#define S(s) struct s
using FSM = M::PeerRoot< S(A), M::Selectable<S(L), S(L1), M::Composite<S(N), S(N1), S(N2)>> >;
struct A : FSM::State {}; struct L : FSM::State { hfsm2::Prong select(const Control&) { return 1; } };
struct L1 : FSM::State {}; struct N : FSM::State {}; struct N1 : FSM::State {}; struct N2 : FSM::State {};
int main() {
  FSM::Instance fsm;
  fsm.changeTo<L>(); fsm.update();
  printf("changeTo<L> (select()==1 -> N): L=%d N=%d N1=%d N2=%d activeSubState<N>=%d\n", fsm.isActive<L>(), fsm.isActive<N>(), fsm.isActive<N1>(), fsm.isActive<N2>(), (int) fsm.activeSubState<N>());
  FSM::Instance f2; f2.select<L>(); f2.update();
  printf("select<L>: L=%d N=%d N1=%d N2=%d activeSubState<N>=%d\n", f2.isActive<L>(), f2.isActive<N>(), f2.isActive<N1>(), f2.isActive<N2>(), (int) f2.activeSubState<N>());
  f2.update();
  return (fsm.isActive<N>() && !fsm.isActive<N1>() && !fsm.isActive<N2>()) ? 1 : 0;
}
