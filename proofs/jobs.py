# Job table of /verif/check (DESIGN.md 8).  Generated programmatically; every job is one CBMC run.
JOBS = []
def job(**kw):
    kw.setdefault('tier', 'quick'); kw.setdefault('defs', {})
    JOBS.append(kw); return kw

# ------------------------------------------------------------------ C19 pool
TL_CARRIERS = [r'TaskListT<.*>::emplace', r'TaskListT<.*>::remove', r'TaskListT<.*>::clear\(\)', r'TaskListT<.*>::operator\[\]']
for cap, tier in ((1, 'quick'), (2, 'quick'), (3, 'quick'), (4, 'quick'), (5, 'thorough'), (8, 'thorough')):
    for pl in (False, True):
        defs = {'CAP': cap}
        if pl: defs['PAYLOAD_INT'] = None
        t = tier if not (pl and cap in (1, 3)) else 'thorough'
        for entry in ('proof_init', 'proof_emplace', 'proof_emplace_full', 'proof_remove', 'proof_clear', 'proof_access', 'proof_copy') + (('proof_emplace_plain',) if pl else ()):
            props = ['C19'] + (['C11'] if entry != 'proof_emplace_full' else []) + (['C14'] if entry == 'proof_emplace_plain' else []) + (['C10'] if entry == 'proof_copy' else [])
            job(id='C19.pool.cap%d%s.%s' % (cap, '.int' if pl else '', entry[6:]), tu='tier_a/tasklist.cpp', defs=defs, entry=entry,
                props=props, tier=t, unwind=max(cap + 2, 6), unwindset={'verif_havoc.0': 4096}, objbits=10, carriers=TL_CARRIERS, timeout=600 if cap < 5 else 2400,
                case_key='TaskListT<%s,%d>' % ('int' if pl else 'void', cap))

# code contracts on the real functions, enforced / used modularly by goto-instrument --dfcc (DESIGN 11.10)
TL_SPEC = 'contracts/tasklist.spec'
for cap, tier in ((2, 'quick'), (4, 'quick'), (3, 'thorough'), (5, 'thorough')):   # cap 8 with the ghost-slot frame clauses: remove 377 s, emplace 259 s, client > 600 s - dropped
    for alias, entry, enforce, replace in (('remove', 'dfcc_tl_remove', ['tl_remove'], []), ('emplace', 'dfcc_tl_emplace', ['tl_emplace'], []), ('clear', 'dfcc_tl_clear', ['tl_clear'], []),
                                           ('client', 'dfcc_tl_client', [], ['tl_emplace', 'tl_remove'])):
        job(id='C19.dfcc.cap%d.%s' % (cap, alias), tu='tier_a/tasklist.cpp', defs={'CAP': cap}, entry=entry, props=['C19', 'C11'], tier=tier, mode='dfcc', unwind=max(cap + 2, 6), objbits=10, timeout=600,
            dfcc={'contracts': TL_SPEC, 'enforce': enforce, 'replace': replace}, carriers=[r'TaskListT<.*>::emplace', r'TaskListT<.*>::remove', r'TaskListT<.*>::clear\(\)'],
            case_key='TaskListT<void,%d> contract %s' % (cap, alias))

# ------------------------------------------------------------------ C19 arrays
DA_CARRIERS = [r'DynamicArrayT<.*>::emplace', r'DynamicArrayT<.*>::operator\+=', r'DynamicArrayT<.*>::operator\[\]', r'StaticArrayT<.*>::fill', r'StaticArrayT<.*>::empty', r'StaticArrayT<.*>::operator!=']
for cap, cap2, tier in ((1, 1, 'quick'), (2, 3, 'quick'), (4, 3, 'quick'), (5, 5, 'thorough'), (8, 4, 'thorough')):
    for pl in (False, True):
        defs = {'CAP': cap, 'CAP2': cap2}
        if pl: defs['PAYLOAD_INT'] = None
        t = tier if not (pl and cap == 1) else 'thorough'
        for entry in ('proof_da_init', 'proof_da_emplace_copy', 'proof_da_emplace_args', 'proof_da_bulk', 'proof_da_copy_clear', 'proof_da_iter', 'proof_sa'):
            if entry == 'proof_sa' and pl: continue
            job(id='C19.array.cap%d_%d%s.%s' % (cap, cap2, '.int' if pl else '', entry[6:]), tu='tier_a/arrays.cpp', defs=defs, entry=entry,
                props=['C19', 'C11'] + (['C14'] if pl and entry == 'proof_da_copy_clear' else []), tier=t, unwind=max(cap, cap2, 4) + 2, objbits=10, carriers=DA_CARRIERS,
                case_key='DynamicArrayT<TransitionT<%s>,%d>+=<%d>' % ('int' if pl else 'void', cap, cap2))

for alias, entry, enforce, replace in (('emplace', 'dfcc_da_emplace', ['da_emplace'], []), ('client', 'dfcc_da_client', [], ['da_emplace'])):
    job(id='C19.dfcc.array4.%s' % alias, tu='tier_a/arrays.cpp', defs={'CAP': 4, 'CAP2': 3}, entry=entry, props=['C19', 'C11'], quick_for=['C19'], mode='dfcc', unwind=8, objbits=10, timeout=600,
        dfcc={'contracts': 'contracts/array.spec', 'enforce': enforce, 'replace': replace}, carriers=[r'DynamicArrayT<.*>::emplace'], case_key='DynamicArrayT<TransitionT<void>,4> contract %s' % alias)
# capacities at the boundary of the index type (uint8_t up to 255 items, wider from 256 on)
for cap, tier in ((256, 'quick'), (255, 'thorough'), (257, 'thorough')):
    for entry in ('proof_da_init', 'proof_da_emplace_copy', 'proof_da_copy_clear'):        # (the bulk-append harness does not finish at this size)
        job(id='C19.array.cap%d_3.%s' % (cap, entry[6:]), tu='tier_a/arrays.cpp', defs={'CAP': cap, 'CAP2': 3}, entry=entry, props=['C19', 'C11'], quick_for=['C19'], tier=tier, unwind=cap + 3, objbits=10,
            timeout=900, carriers=DA_CARRIERS, case_key='DynamicArrayT<TransitionT<void>,%d>+=<3> (index-type boundary)' % cap)

# ------------------------------------------------------------------ C20 generators
RNG_CARRIERS = {
 'proof_splitmix64': [r'SimpleRandomT<8u>::raw64'], 'proof_splitmix32': [r'SimpleRandomT<4u>::raw32'],
 'proof_nonzero64': [r'SimpleRandomT<8u>::uint64'], 'proof_nonzero32': [r'SimpleRandomT<4u>::uint32'],
 'proof_seed_float64': [r'BaseRandomT<8u>::BaseRandomT\(hfsm2::detail::SimpleRandomT', r'BaseRandomT<8u>::seed'], 'proof_seed_int64': [r'BaseRandomT<8u>::seed'],
 'proof_seed_float32': [r'BaseRandomT<4u>::BaseRandomT\(hfsm2::detail::SimpleRandomT', r'BaseRandomT<4u>::seed'], 'proof_seed_int32': [r'BaseRandomT<4u>::seed'],
 'proof_x256plus': [r'FloatRandomT<8u>::uint64'], 'proof_x256starstar': [r'IntRandomT<8u>::uint64'],
 'proof_x128plus': [r'FloatRandomT<4u>::uint32'], 'proof_x128starstar': [r'IntRandomT<4u>::uint32'],
 'proof_jump256plus': [r'FloatRandomT<8u>::jump'], 'proof_jump256ss': [r'IntRandomT<8u>::jump'],
 'proof_jump128plus': [r'FloatRandomT<4u>::jump'], 'proof_jump128ss': [r'IntRandomT<4u>::jump'],
 'proof_uniform': [r'hfsm2::detail::uniform\(unsigned int\)', r'hfsm2::detail::uniform\(unsigned long long\)'],
 'proof_unit_f64': [r'FloatRandomT<8u>::float32', r'FloatRandomT<8u>::float64', r'FloatRandomT<8u>::next'], 'proof_unit_i64': [r'IntRandomT<8u>::float64'],
 'proof_unit_f32': [r'FloatRandomT<4u>::float32', r'FloatRandomT<4u>::uint64'], 'proof_unit_i32': [r'IntRandomT<4u>::float64'],
 'proof_rngt': [r'FloatRandomT<8u>::next'],
}
RNG_SPEC = 'contracts/random.spec'
for entry, car in RNG_CARRIERS.items():
    jump = 'jump' in entry
    j = job(id='C20.' + entry[6:], tu='tier_a/random.cpp', entry=entry, props=['C20', 'C11'], unwind=(66 if '256' in entry else 34) if jump else 6,
        objbits=8, carriers=car, timeout=150, case_key=entry[6:])
    if 'splitmix' in entry or 'starstar' in entry or jump or 'nonzero' in entry or 'seed' in entry or entry == 'proof_rngt': j['props'] = ['C20']      # decided by SMT back ends at term level: with CBMC's safety instrumentation on top they do not finish, so no C11 claim rides on them
    if 'splitmix' in entry or 'x256ss' in entry or 'x128ss' in entry or 'starstar' in entry: j.update(backend='portfolio', portfolio=['cvc5', 'z3'])   # equal multiplier chains: decided at term level
    if jump: j.update(backend='portfolio', portfolio=['z3', 'cvc5'])          # XOR-network equivalence: term-level rewriting decides it (12 s); SAT does not finish
    if 'nonzero' in entry:
        j.update(unwind=3, backend='portfolio', portfolio=['cvc5', 'z3'])     # unwinding assertion at 3 = "at most two iterations": termination for every state
    if 'seed' in entry or entry == 'proof_rngt':
        # modular: the seeding source is replaced by its contract (enforced in C20.dfcc.nonzero*)
        j.update(mode='dfcc', objbits=10, backend='portfolio', portfolio=['z3', 'cvc5'], dfcc={'contracts': RNG_SPEC, 'replace': ['nonzero64' if '64' in entry or entry == 'proof_rngt' else 'nonzero32']})
job(id='C20.spec_is_reference', tu='tier_a/random.cpp', entry='proof_spec_is_reference', props=['C20'], unwind=3, objbits=8, backend='portfolio', portfolio=['cvc5', 'z3'], timeout=300,
    carriers=[], case_key='contract spec = reference')
for alias, entry, repl, kw in (('raw64', 'dfcc_raw64', [], {}), ('raw32', 'dfcc_raw32', [], {}),
                               ('nonzero64', 'dfcc_nonzero64', ['raw64'], {'unwind': 3}),
                               ('nonzero32', 'dfcc_nonzero32', ['raw32'], {'unwind': 3})):
    kw.setdefault('backend', 'portfolio'); kw.setdefault('portfolio', ['cvc5', 'z3'])
    job(id='C20.dfcc.' + alias, tu='tier_a/random.cpp', entry=entry, props=['C20'], objbits=10, timeout=300, mode='dfcc',      # (SMT-decided: no C11 claim rides on them, see above)
        dfcc={'contracts': RNG_SPEC, 'enforce': [alias], 'replace': repl}, carriers=[r'SimpleRandomT<[48]u>::(raw|uint)(32|64)'],
        case_key='contract ' + alias, **(dict(kw, unwind=kw.get('unwind', 6))))
# goto-instrument --dfcc enforces ONE contract per run (a second --enforce-contract is silently dropped): one job per function
for w_ in ('32', '64'):
    job(id='C20.dfcc.uniform' + w_, tu='tier_a/random.cpp', entry='dfcc_uniform' + w_, props=['C20', 'C11'], objbits=8, timeout=300, mode='dfcc', unwind=3,
        dfcc={'contracts': RNG_SPEC, 'enforce': ['uniform' + w_]}, carriers=[r'hfsm2::detail::uniform'], case_key='contract uniform' + w_)

# ------------------------------------------------------------------ C18 bit arrays and streams
BA_CARRIERS = [r'BitArrayT<\d+u>::get<', r'BitArrayT<\d+u>::set<', r'BitArrayT<\d+u>::clear<', r'BitArrayT<\d+u>::empty', r'BitArrayT<\d+u>::operator&=',
               r'BitArrayT<\d+u>::operator!=', r'BitArrayT<\d+u>::Bits::operator bool', r'BitArrayT<\d+u>::CBits::operator bool', r'BitArrayT<\d+u>::bits\(', r'BitArrayT<\d+u>::Bits::clear\(\)']
for n, tier in ((1, 'quick'), (8, 'quick'), (9, 'quick'), (17, 'quick'), (32, 'quick'), (2, 'thorough'), (7, 'thorough'), (15, 'thorough'), (16, 'thorough'),
                (31, 'thorough'), (33, 'thorough'), (64, 'thorough'), (255, 'thorough'), (256, 'thorough'), (257, 'thorough')):
    for entry in ('proof_ba_index', 'proof_ba_static', 'proof_ba_whole', 'proof_bits_view', 'proof_bits_static'):
        units = (n + 7) // 8
        job(id='C18.bitarray.n%d.%s' % (n, entry[6:]), tu='tier_a/bits.cpp', defs={'VP_N': n}, entry=entry, props=['C18', 'C11'], tier=tier,
            unwind=8 * units + 2, objbits=8, carriers=BA_CARRIERS if entry != 'proof_ba_static' else [], timeout=600, case_key='BitArrayT<%d>' % n)
BA_SPEC = 'contracts/bitarray.spec'
for n, tier in ((9, 'quick'), (17, 'quick'), (64, 'thorough'), (257, 'thorough')):
    for alias, entry, enforce, replace in (('set', 'dfcc_ba_set', ['ba_set'], []), ('clear', 'dfcc_ba_clear', ['ba_clear'], []), ('get', 'dfcc_ba_get', ['ba_get'], []),
                                           ('client', 'dfcc_ba_client', [], ['ba_set', 'ba_clear', 'ba_get'])):
        job(id='C18.dfcc.n%d.%s' % (n, alias), tu='tier_a/bits.cpp', defs={'VP_N': n}, entry=entry, props=['C18', 'C11'], tier=tier, mode='dfcc', unwind=8 * ((n + 7) // 8) + 2, objbits=8, timeout=600,
            dfcc={'contracts': BA_SPEC, 'enforce': enforce, 'replace': replace}, carriers=[r'BitArrayT<\d+u>::set<', r'BitArrayT<\d+u>::clear<', r'BitArrayT<\d+u>::get<'], case_key='BitArrayT<%d> contract %s' % (n, alias))
ST_CARRIERS = [r'BitWriteStreamT<.*>::write<', r'BitReadStreamT<.*>::read<', r'StreamBufferT<.*>::operator==', r'StreamBufferT<.*>::operator!=']
def stream_jobs(scap, w1, w2, tier):
    defs = {'VP_SCAP': scap, 'VP_W1': w1, 'VP_W2': w2, 'VP_N': 9}
    for entry in ('proof_sb_compare', 'proof_write_w1', 'proof_write_w2', 'proof_read_w1', 'proof_read_w2', 'proof_roundtrip'):
        job(id='C18.stream.c%d.w%d_%d.%s' % (scap, w1, w2, entry[6:]), tu='tier_a/bits.cpp', defs=defs, entry=entry, props=['C18', 'C11'], tier=tier,
            unwind=8 * ((scap + 7) // 8) + 2, objbits=8, carriers=ST_CARRIERS, timeout=600, case_key='Stream<%d> widths %d,%d' % (scap, w1, w2))
stream_jobs(31, 5, 12, 'quick'); stream_jobs(70, 1, 32, 'quick'); stream_jobs(64, 8, 16, 'quick'); stream_jobs(9, 3, 6, 'quick')
for i, (a, b) in enumerate(((2, 31), (4, 30), (7, 29), (9, 28), (10, 27), (11, 26), (13, 25), (14, 24), (15, 23), (17, 22), (18, 21), (19, 20), (32, 32))):
    stream_jobs(70, a, b, 'thorough')
stream_jobs(8, 1, 7, 'thorough'); stream_jobs(1, 1, 1, 'thorough') if False else None

# ------------------------------------------------------------------ Tier B: RegistryT over symbolic structure tables
REG_CARRIERS = {
 'proof_activity_queries': (['C13', 'C01', 'C11'], [r'RegistryT<.*>::isActive\(unsigned short\) const', r'RegistryT<.*>::activeSubState', r'RegistryT<.*>::isResumable', r'RegistryT<.*>::forkParent']),
 'proof_active_sub_other': (['C13', 'C11'], [r'RegistryT<.*>::activeSubState']),
 'proof_pending_none':     (['C13'], [r'RegistryT<.*>::isPendingEnter', r'RegistryT<.*>::isPendingExit', r'RegistryT<.*>::isPendingChange']),
 'proof_pending_relation': (['C13', 'C11'], [r'RegistryT<.*>::isPendingEnter', r'RegistryT<.*>::isPendingExit', r'RegistryT<.*>::isPendingChange']),
 'proof_request_immediate': (['C02', 'C11'], [r'RegistryT<.*>::requestImmediate']),
 'proof_request_scheduled': (['C02', 'C13', 'C11'], [r'RegistryT<.*>::requestScheduled']),
 'proof_backup_restore':   (['C04', 'C11'], [r'RegistryT<.*>::backup', r'RegistryT<.*>::restore', r'RegistryT<.*>::operator!=']),
 'proof_clear':            (['C01', 'C11'], [r'RegistryT<.*>::clearRequests', r'RegistryT<.*>::clear\(\)', r'RegistryT<.*>::empty']),
}
for variant, defs in (('ortho', {}), ('compo', {'NO_ORTHO': None}), ('ortho2', {'TWO_ORTHO': None})):
    for entry, (props, car) in REG_CARRIERS.items():
        job(id='B.registry.%s.%s' % (variant, entry[6:]), tu='tier_b/registry.cpp', defs=defs, entry=entry, props=props, unwind=12,
            unwindset={'verif_havoc.0': 4096}, objbits=10, carriers=car, timeout=600,
            case_key='RegistryT %s, symbolic tables (%s)' % ('ORTHO_COUNT==0' if variant == 'compo' else 'general', {'ortho': '10 states/3 compo/1 ortho', 'compo': '8 states/3 compo', 'ortho2': '10 states/2 compo/2 ortho'}[variant]))

# ------------------------------------------------------------------ Tier C: step proofs on sample machines
# python mirror of each machine's declaration (parent, kind) -- only used to enumerate case keys; the C++ side
# proves the enumeration exhaustive (proof_cfg_count) and checks the declaration against deepRegister().
class Machine:
    def __init__(self, name, tu, parents, kinds, strategies=None, defs=None, unwind=12):
        self.name, self.tu, self.parents, self.kinds, self.defs, self.unwind = name, tu, parents, kinds, defs or {}, unwind
        self.n = len(parents); self.root_stub = False
    def children(self, s): return [c for c in range(self.n) if self.parents[c] == s]
    def count(self, s):
        if self.kinds[s] == 'L': return 1
        cs = [self.count(c) for c in self.children(s)]
        if self.kinds[s] == 'C': return sum(cs)
        r = 1
        for c in cs: r *= c
        return r
    def active_set(self, k, s=0):
        """states active in configuration #k of the sub-tree of s (same enumeration as cfg_set_rec in view.hpp)"""
        out = [s]
        if self.kinds[s] == 'C':
            for c in self.children(s):
                n = self.count(c)
                if k < n: out += self.active_set(k, c); break
                k -= n
        elif self.kinds[s] == 'O':
            for c in self.children(s):
                n = self.count(c); out += self.active_set(k % n, c); k //= n
        return out

M_RES = Machine('resumable', 'tier_c/m_resumable.cpp', [-1, 0, 0, 2, 2, 0], ['C', 'L', 'C', 'L', 'L', 'L'])
M_ORTHO = Machine('ortho', 'tier_c/m_ortho.cpp', [-1, 0, 1, 2, 2, 1, 5, 5, 0], ['C', 'O', 'C', 'L', 'L', 'C', 'L', 'L', 'L'], unwind=14); M_ORTHO.root_stub = True
M_NEST = Machine('nested', 'tier_c/m_nested.cpp', [-1, 0, 1, 2, 2, 1, 0], ['C', 'C', 'C', 'L', 'L', 'L', 'L'], unwind=14)
M_SEL = Machine('select', 'tier_c/m_select.cpp', [-1, 0, 0, 2, 2, 4, 4], ['C', 'L', 'C', 'L', 'C', 'L', 'L'], unwind=14)
M_OROOT = Machine('oroot', 'tier_c/m_oroot.cpp', [-1, 0, 1, 1, 0, 4, 4], ['O', 'C', 'L', 'L', 'C', 'L', 'L'], unwind=14); M_OROOT.root_stub = True
MACHINES = [M_RES, M_ORTHO, M_NEST, M_SEL, M_OROOT]
KIND_NAMES = {0: 'change', 1: 'restart', 2: 'resume', 3: 'select', 4: 'utilize', 5: 'randomize', 6: 'schedule'}
STEP_CARRIERS = [r'R_<.*>::processTransitions', r'R_<.*>::applyRequest', r'RegistryT<.*>::requestImmediate', r'C_<.*>::deepChangeToRequested', r'C_<.*>::deepForwardActive',
                 r'S_<.*>::deepEnter', r'S_<.*>::deepExit', r'C_<.*>::deepEnter', r'C_<.*>::deepExit', r'R_<.*>::approvedByGuards']
def ortho_direct(m, d):
    """delimiting predicate of finding KF-C02-ortho-sibling-reset: the destination is a direct sub-state of an orthogonal region"""
    if m.parents[d] < 0 or m.kinds[m.parents[d]] != 'O': return []
    a = m.parents[d]; has_compo_above = False
    while a >= 0:
        if m.kinds[a] == 'C': has_compo_above = True
        a = m.parents[a]
    return ['ortho-direct'] + ([] if has_compo_above else ['ortho-root-direct'])    # second tag: finding KF-C02-ortho-root-child-ignored
def machine_jobs(m, kinds=(0, 1, 2), upd_kinds_quick=(0, 2, 6), upd_kinds=(0, 1, 2, 6), tier='quick', q2_tier='thorough'):
    base = dict(tu=m.tu, defs=m.defs, unwind=m.unwind, objbits=12, timeout=900)
    for e in ('proof_init', 'proof_exit_enter', 'proof_reset', 'proof_cfg_count'):
        job(id='C.%s.%s' % (m.name, e[6:]), entry=e, props=['C01', 'C02', 'C03', 'C13', 'C11'] if e != 'proof_cfg_count' else ['C01'], tier=tier,
            carriers=[r'R_<.*>::initialEnter', r'R_<.*>::finalExit'] if e == 'proof_init' else [], case_key='%s/%s' % (m.name, e[6:]), **base)
    for k in kinds:
        for d in range(0, m.n):          # d == 0: the root itself (R_::applyRequest routes it through _apex.deepRequest(), not through the registry walk)
            job(id='C.%s.imm.%s.d%d' % (m.name, KIND_NAMES[k], d), entry='step_immediate', key=[k, d], props=['C01', 'C02', 'C03', 'C04', 'C13', 'C11'], tier=tier, carriers=STEP_CARRIERS, tags=ortho_direct(m, d),
                case_key='%s/immediate/%s/dest=%d' % (m.name, KIND_NAMES[k], d), **base)
    ncfg = m.count(0)
    for c in range(ncfg):
        act = m.active_set(c)
        job(id='C.%s.upd.c%d.none' % (m.name, c), entry='step_update', key=[c, -1, 0, 0], props=['C01', 'C02', 'C04', 'C11'], tier=tier, carriers=[r'R_<.*>::update', r'R_<.*>::processRequest'],
            case_key='%s/update/cfg=%d/no request' % (m.name, c), **base)
        deepest = max(act)            # quick tier: one issuer per configuration (the last active state in id order); thorough: every active state
        for i in act:
            if i == 0 and not m.root_stub: continue
            for k in upd_kinds:
                for d in range(1, m.n):
                    job(id='C.%s.upd.c%d.i%d.%s.d%d' % (m.name, c, i, KIND_NAMES[k], d), entry='step_update', key=[c, i, k, d], props=['C01', 'C02', 'C03', 'C04'], quick_for=['C02'], tags=ortho_direct(m, d),
                        tier=tier if (i == deepest and k in upd_kinds_quick) else 'thorough',
                        carriers=[r'R_<.*>::update', r'FullControlBaseT<.*>::changeTo'], case_key='%s/update/cfg=%d/issuer=%d/%s/dest=%d' % (m.name, c, i, KIND_NAMES[k], d), **base)
        for e in ('step_order_update', 'step_order_react', 'step_order_query'):
            job(id='C.%s.%s.c%d' % (m.name, e[5:], c), entry=e, key=[c], props=['C05', 'C03', 'C11'], tier=tier,
                carriers=[r'R_<.*>::update', r'R_<.*>::react', r'R_<.*>::query'] if e == 'step_order_react' else [], case_key='%s/%s/cfg=%d' % (m.name, e[5:], c), **base)
    for d1 in range(1, m.n):
        for d2 in range(1, m.n):
            job(id='C.%s.q2.d%d.d%d' % (m.name, d1, d2), entry='step_queued2', key=[0, d1, 0, d2], props=['C01', 'C02', 'C04'], quick_for=['C02'], tier=q2_tier, carriers=[r'R_<.*>::changeTo'],
                tags=(['batch-override'] if batch_override_key(m, d1, d2) else []) + [t for t in (ortho_direct(m, d1) + ortho_direct(m, d2)) if t == 'ortho-root-direct'][:1],
                case_key='%s/queued pair/change %d then change %d' % (m.name, d1, d2), **base)
def ancestors(m, s):
    out = []
    while s >= 0: out.append(s); s = m.parents[s]
    return out
def batch_override_key(m, di, dj):
    """delimiting predicate of finding KF-C02-batch-override: the earlier request di conflicts with the later one dj at a composite
    region g, and dj's path has at least two composite levels strictly below g (so the ancestor walk can stop before reaching g)"""
    for a in ancestors(m, di):
        for b in ancestors(m, dj):
            if a > 0 and b > 0 and a != b and m.parents[a] == m.parents[b] and m.kinds[m.parents[a]] == 'C':
                g = m.parents[a]
                below = [x for x in ancestors(m, dj)[1:] if m.kinds[x] == 'C' and x != g and g in ancestors(m, x)]
                return len(below) >= 2
    return False
def compatible(m, d1, d2):
    if d1 != d2 and d2 in ancestors(m, d1): return False
    a = d1
    while a > 0:
        b = d2
        while b > 0:
            if m.parents[a] == m.parents[b] and m.kinds[m.parents[a]] == 'C' and a != b: return False
            b = m.parents[b]
        a = m.parents[a]
    return True
def extra_jobs(m, tier='quick', q3=True):
    base = dict(tu=m.tu, defs=m.defs, unwind=m.unwind, objbits=12, timeout=900, mem_gb=24)
    ncfg = m.count(0)
    for c in range(ncfg):
        act = m.active_set(c)
        for d in range(1, m.n):
            job(id='C.%s.subf.c%d.d%d' % (m.name, c, d), entry='step_substitute_forever', key=[c, d, d, 1], props=['C04', 'C01', 'C03', 'C11'], quick_for=['C04', 'C11'], tier=tier if c == d % ncfg else 'thorough',
                carriers=[r'R_<.*>::processTransitions', r'GuardControlT<.*>::cancelPendingTransitions'], case_key='%s/substitute in every round/cfg=%d/dest=%d' % (m.name, c, d), **base)
            for g in range(1, m.n):
                for is_entry in (1, 0):
                    if is_entry == 0 and g not in act: continue          # an exit guard runs only for an active state
                    if is_entry == 1 and m.parents[g] == d: continue         # entry guard of a sub-state of the DESTINATION region: whether it is consulted depends on the symbolic resumable mark, the request queue turns symbolic (L2) and the job runs out of memory
                    for sd in range(1, m.n):
                        if sd == d: continue
                        quick = (g == d and is_entry == 1 and sd in (1, m.n - 1)) or (is_entry == 0 and g == max(act) and sd == 1 and d == m.n - 1)
                        job(id='C.%s.sub.c%d.d%d.g%d%s.s%d' % (m.name, c, d, g, 'e' if is_entry else 'x', sd), entry='step_substitute', key=[c, d, g, is_entry, sd], props=['C04', 'C01', 'C02', 'C03'], quick_for=['C04'],
                            tier=tier if quick else 'thorough', carriers=[r'R_<.*>::processTransitions', r'R_<.*>::approvedByGuards', r'RegistryT<.*>::restore'],
                            case_key='%s/substitute/cfg=%d/dest=%d/guard=%d(%s)/instead=%d' % (m.name, c, d, g, 'entry' if is_entry else 'exit', sd), **base)
    for (a_, b_) in [(x, y) for x in range(1, m.n) for y in range(1, m.n) if x != y and m.kinds[x] == 'L' and m.kinds[y] == 'L']:
        for c in range(ncfg):
            quick = c == 0 and (a_, b_) in ((1, m.n - 1), (m.n - 1, 1), (3, 4))
            job(id='C.%s.pingpong.c%d.d%d.d%d' % (m.name, c, a_, b_), entry='step_pingpong', key=[c, a_, b_], props=['C04', 'C01', 'C03'], quick_for=['C04'], tier=tier if quick else 'thorough',
                carriers=[r'R_<.*>::processTransitions', r'R_<.*>::approvedByGuards'], case_key='%s/approved rounds that keep asking for more/cfg=%d/%d<->%d' % (m.name, c, a_, b_), **dict(base, unwind=max(m.unwind, 20)))
    for d1 in range(1, m.n if q3 else 1):
        for d2 in range(1, m.n):
            for d3 in range(1, m.n):
                interesting = len({d1, d2, d3}) == 3 and not compatible(m, d2, d3) and compatible(m, d1, d3)
                job(id='C.%s.q3.d%d.d%d.d%d' % (m.name, d1, d2, d3), entry='step_queued3', key=[d1, d2, d3], props=['C02', 'C01', 'C04'], quick_for=['C02'], tier=tier if interesting else 'thorough',
                    tags=['batch-override'] if (batch_override_key(m, d2, d3) or batch_override_key(m, d1, d3) or batch_override_key(m, d1, d2)) else [],
                    carriers=[r'RegistryT<.*>::requestImmediate'], case_key='%s/queued triple/change %d, %d, %d' % (m.name, d1, d2, d3), **base)
machine_jobs(M_RES, q2_tier='quick')
extra_jobs(M_RES, q3=False); extra_jobs(M_NEST)        # M_RES has a queue capacity of 2 (COMPO_COUNT): three queued requests are outside C02's quantifier
machine_jobs(M_NEST, q2_tier='quick')
machine_jobs(M_ORTHO, upd_kinds_quick=(0,))
machine_jobs(M_SEL, kinds=(0, 1, 2, 3), upd_kinds_quick=(0, 3), upd_kinds=(0, 1, 2, 3, 6))
machine_jobs(M_OROOT, upd_kinds_quick=(0,))

# ------------------------------------------------------------------ C08 / C09 jobs on the sample machines
def serial_jobs(m, tier='quick'):
    base = dict(tu=m.tu, defs=m.defs, unwind=m.unwind, objbits=12, timeout=900)
    ncfg = m.count(0)
    for ka in range(-1, ncfg):
        for kb in range(-1, ncfg):
            job(id='C.%s.saveload.a%s.b%s' % (m.name, ka if ka >= 0 else 'off', kb if kb >= 0 else 'off'), entry='step_save_load', key=[ka, kb], props=['C08', 'C01', 'C03', 'C11'], quick_for=['C08'], tier=tier, assert_props=['C08'],   # stream cursor <= SERIAL_BITS is an HFSM2_ASSERT in write<W>/read<W>
                carriers=[r'RV_<.*>::save', r'RV_<.*>::load', r'R_<.*>::load', r'C_<.*>::deepSaveActive', r'C_<.*>::deepLoadRequested', r'BitWriteStreamT<.*>::write<', r'BitReadStreamT<.*>::read<'],
                case_key='%s/save in cfg %d, load into cfg %d (-1 = not activated)' % (m.name, ka, kb), **base)
def history_jobs(m, kinds=(0, 1, 2, 6), tier='quick'):
    base = dict(tu=m.tu, defs=m.defs, unwind=m.unwind, objbits=12, timeout=900)
    job(id='C.%s.history.enter' % m.name, entry='proof_history_enter', props=['C09', 'C03'], tier=tier, carriers=[r'RV_<.*>::replayEnter'], case_key='%s/replayEnter' % m.name, **base)
    for d in range(1, m.n):
        job(id='C.%s.history.enter_redirect.d%d' % (m.name, d), entry='step_history_enter_redirect', key=[d], props=['C09', 'C02', 'C03'], quick_for=['C09'], tier=tier,
            carriers=[r'RV_<.*>::replayEnter', r'R_<.*>::initialEnter'], case_key='%s/replayEnter of an activation redirected to %d' % (m.name, d), **base)
    for k in kinds:
        for d in range(0, m.n):           # d == 0: the root itself is a legal, recorded transition target
            if d == 0 and k == 6: continue
            job(id='C.%s.history.%s.d%d' % (m.name, KIND_NAMES[k], d), entry='step_history_replay', key=[k, d], props=['C09', 'C01', 'C03'], quick_for=['C09'], tier=tier,
                carriers=[r'R_<.*>::replayTransitions', r'R_<.*>::lastTransitionTo', r'R_<.*>::applyRequests', r'ControlT<.*>::pinLastTransition'], case_key='%s/history+replay/%s/dest=%d' % (m.name, KIND_NAMES[k], d), **base)
def history_round_jobs(m, tier='quick'):
    base = dict(tu=m.tu, defs=m.defs, unwind=m.unwind, objbits=12, timeout=900)
    for c in range(m.count(0)):
        for d1 in range(1, m.n):
            for d2 in range(1, m.n):
                for d3 in range(1, m.n):
                    if d3 in (d1, d2): continue        # (the stubs tell the rounds apart by the destination of the first pending request: the guard's extra request must name a new destination)
                    quick = c == 0 and d1 != d2 and compatible(m, d1, d2) and m.kinds[d2] == 'L'
                    job(id='C.%s.history2.c%d.d%d.d%d.d%d' % (m.name, c, d1, d2, d3), entry='step_history_rounds', key=[c, d1, d2, d2, d3], props=['C09', 'C01'], quick_for=['C09'], tier=tier if quick else 'thorough',
                        carriers=[r'R_<.*>::replayTransitions', r'R_<.*>::applyRequests', r'R_<.*>::processTransitions'], case_key='%s/two approved rounds/cfg=%d/%d,%d then %d' % (m.name, c, d1, d2, d3), **base)
                    job(id='C.%s.history2v.c%d.d%d.d%d.d%d' % (m.name, c, d1, d2, d3), entry='step_history_rounds', key=[c, d1, d2, d2, d3, 1], props=['C09', 'C04', 'C01'], quick_for=['C09', 'C04'], tier=tier if quick else 'thorough',
                        carriers=[r'R_<.*>::replayTransitions', r'R_<.*>::processTransitions', r'RegistryT<.*>::restore'], case_key='%s/approved round then a round that may be vetoed/cfg=%d/%d,%d then %d' % (m.name, c, d1, d2, d3), **base)
history_round_jobs(M_RES)
serial_jobs(M_RES); serial_jobs(M_ORTHO); serial_jobs(M_NEST)
history_jobs(M_RES); history_jobs(M_NEST)
# (history + replay jobs on the orthogonal machine - two 9-state instances per job - did not finish in 50 min each under load and are in no tier)

# ------------------------------------------------------------------ C10 determinism (two-run contracts)
for variant, vdefs in (('user_rng', {}), ('builtin_rng', {'VD_BUILTIN_RNG': None})):
    for script in (0, 1, 2, 3):
        for entry in ('proof_two_storages', 'proof_copy'):
            for sroa in (True, False):
                if not sroa and entry == 'proof_copy' and variant == 'builtin_rng': continue      # (out of memory on the un-promoted IR)
                defs = dict(vdefs); defs['VD_SCRIPT'] = script
                job(id='C10.%s.s%d.%s%s' % (variant, script, entry[6:], '' if sroa else '.unpromoted'), tu='tier_c/m_determinism.cpp', defs=defs, entry=entry, props=['C10', 'C11'], unwind=34, unwindset={entry + '.0': 98}, objbits=12, timeout=1800, sroa=sroa,
                    tier='quick' if (sroa and script < 2) else 'thorough', carriers=[r'InstanceT<.*>::InstanceT', r'CoreT<.*>::CoreT', r'R_<.*>::R_', r'RV_<.*>::RV_'],
                    case_key='determinism/%s/script %d/%s/%s' % (variant, script, entry[6:], 'sroa' if sroa else 'un-promoted IR'))

# ------------------------------------------------------------------ Tier B: plan storage over symbolic contents (C07)
# (task capacity 6 does not finish in 15 min per job - symbolic contents of six linked tasks - and is not part of any tier)
PLAN_CARRIERS = [r'PlanT<.*>::append', r'PlanT<.*>::linkTask', r'PlanT<.*>::remove', r'PlanT<.*>::clearTasks', r'PlanT<.*>::Iterator::operator\+\+', r'PlanDataT<.*>::clear\(\)', r'TaskListT<.*>::emplace', r'TaskListT<.*>::remove']
for tcap, payload, tier in ((1, False, 'quick'), (2, False, 'quick'), (3, False, 'quick'), (3, True, 'quick'), (4, False, 'thorough'), (4, True, 'thorough'), (2, True, 'thorough')):
    defs = {'VP_TCAP': tcap}
    if payload: defs['VP_PAYLOAD'] = None
    for entry in ('proof_append', 'proof_remove', 'proof_iterate', 'proof_clear_tasks', 'proof_init_clear'):
        job(id='B.plans.t%d%s.%s' % (tcap, '.int' if payload else '', entry[6:]), tu='tier_b/plans.cpp', defs=defs, entry=entry, props=['C07', 'C11'] + (['C14'] if payload and entry == 'proof_append' else []),
            tier=tier, unwind=max(tcap, 3) + 4, unwindset={'verif_havoc.0': 4096}, objbits=11, timeout=900,
            carriers=PLAN_CARRIERS + ([r'PayloadPlanT<.*>::append'] if payload else []), case_key='PlanDataT: 3 regions, task capacity %d, payload %s' % (tcap, 'int' if payload else 'void'))

# ------------------------------------------------------------------ C12: utility / random machine
M_UTIL = Machine('util', 'tier_c/m_util.cpp', [-1, 0, 0, 2, 2, 2, 0, 6, 6, 6], ['C', 'L', 'C', 'L', 'L', 'L', 'C', 'L', 'L', 'L'], unwind=22)
for e, k, region in (('step_utilize', 4, 2), ('step_utilize', 0, 2), ('step_randomize', 5, 6), ('step_randomize', 0, 6)):
    job(id='C.util.%s.%s' % (e[5:], KIND_NAMES[k]), tu=M_UTIL.tu, entry=e, key=[k, region], props=['C12', 'C01', 'C11'], unwind=22, objbits=12, timeout=900,
        carriers=[r'C_<.*>::deepRequestUtilize', r'C_<.*>::deepRequestRandomize', r'C_<.*>::resolveRandom', r'CS_<.*>::wideReportUtilize', r'CS_<.*>::wideReportRank', r'CS_<.*>::wideReportRandomize', r'C_<.*>::deepRequestChangeUtilitarian', r'C_<.*>::deepRequestChangeRandom'],
        case_key='util/%s/%s region %d' % (e[5:], KIND_NAMES[k], region))

for k in (5, 0):
    job(id='C.util.randomize_exact.%s' % KIND_NAMES[k], tu=M_UTIL.tu, entry='step_randomize_exact', key=[k, 6], props=['C12', 'C01', 'C11'], unwind=22, objbits=12, timeout=1500,
        carriers=[r'C_<.*>::resolveRandom', r'CS_<.*>::wideReportRandomize'], case_key='util/randomize exact grid/%s region 6' % KIND_NAMES[k])

# ------------------------------------------------------------------ C06: plans on the plan machine
M_PLAN = Machine('plan', 'tier_c/m_plan.cpp', [-1, 0, 0, 2, 2, 2], ['C', 'L', 'C', 'L', 'L', 'L'], unwind=14)
for c in range(M_PLAN.count(0)):
    act = M_PLAN.active_set(c)
    for shape in range(0, 10):
        for actor in act:
            if actor == 0: continue
            for action in (1, 2):
                quick = actor == max(act) and shape in (0, 1, 2, 3, 5, 8, 9)
                job(id='C.plan.c%d.shape%d.a%d.%s' % (c, shape, actor, 'succeed' if action == 1 else 'fail'), tu=M_PLAN.tu, entry='step_plan', key=[c, shape, actor, action], props=['C06', 'C01', 'C03', 'C11'],
                    tier='quick' if quick else 'thorough', unwind=14, objbits=12, timeout=900,
                    carriers=[r'FullControlT<.*>::updatePlan', r'C_<.*>::deepUpdatePlans', r'FullControlBaseT<.*>::succeed', r'FullControlBaseT<.*>::fail', r'PlanDataT<.*>::clearStatuses'],
                    case_key='plan/cfg=%d/shape=%d/actor=%d/%s' % (c, shape, actor, 'succeed' if action == 1 else 'fail'))
for _w in (1, 0):
    job(id='C.planpay.task.%s' % ('with' if _w else 'without'), tu=M_PLAN.tu, defs={'VM_PLAN_PAYLOAD': None}, entry='step_plan_payload', key=[1, _w], props=['C14', 'C06', 'C01'], quick_for=['C14'], unwind=14, objbits=12, timeout=900,
        carriers=[r'FullControlT<.*>::updatePlan', r'PayloadPlanT<.*>::append', r'TaskT<int>::TaskT|TaskListT<int.*>::emplace'], case_key='plan task %s payload/cfg=1' % ('with' if _w else 'without'))
machine_jobs(M_PLAN, upd_kinds_quick=(0,))
M_PLAN3 = Machine('plan3', 'tier_c/m_plan3.cpp', [-1, 0, 0, 2, 3, 3, 2, 6, 6], ['C', 'L', 'O', 'C', 'L', 'L', 'C', 'L', 'L'], unwind=16)
for _l in (0, 1, 2):
    for _r in (0, 1, 2):
        if _l == 0 and _r == 0: continue
        job(id='C.plan3.ortho.l%d.r%d' % (_l, _r), tu=M_PLAN3.tu, entry='step_plan_ortho', key=[_l, _r], props=['C06', 'C01'], unwind=16, objbits=12, timeout=900,
            carriers=[r'O_<.*>::deepUpdatePlans', r'OS_<.*>::wideUpdatePlans', r'FullControlT<.*>::updatePlan'], case_key='orthogonal plan owner/left prong %s, right prong %s' % (('silent', 'succeeds', 'fails')[_l], ('silent', 'succeeds', 'fails')[_r]))
M_PLAN2 = Machine('plan2', 'tier_c/m_plan2.cpp', [-1, 0, 0, 2, 2, 4, 4], ['C', 'L', 'C', 'L', 'C', 'L', 'L'], unwind=16)
for mark in (0, 1, 2):
    job(id='C.plan2.nested.outer%d' % mark, tu=M_PLAN2.tu, entry='step_plan_nested', key=[mark], props=['C06', 'C01'], unwind=16, objbits=12, timeout=900,
        carriers=[r'C_<.*>::deepUpdatePlans', r'FullControlT<.*>::updatePlan', r'R_<.*>::succeed'], case_key='nested plans/outer head mark=%d' % mark)

# ------------------------------------------------------------------ C14: payloads (resumable machine with PayloadT<int32_t>)
M_PAY = Machine('payload', 'tier_c/m_resumable.cpp', [-1, 0, 0, 2, 2, 0], ['C', 'L', 'C', 'L', 'L', 'L'], defs={'VM_PAYLOAD': None})
for d1 in range(1, M_PAY.n):
    for has1 in (1, 0):
        job(id='C.payload.single.d%d.%s' % (d1, 'with' if has1 else 'without'), tu=M_PAY.tu, defs=M_PAY.defs, entry='step_payload', key=[d1, has1, 0, 0], props=['C14', 'C01', 'C11'], unwind=12, objbits=12, timeout=900,
            carriers=[r'TransitionT<int>::TransitionT', r'TransitionT<int>::payload', r'RP_<.*>::changeWith', r'DynamicArrayT<hfsm2::detail::TransitionT<int>.*>::operator\+='], case_key='payload/single/dest=%d/%s' % (d1, 'payload' if has1 else 'none'))
    for d2 in range(1, M_PAY.n):
        for has1, has2 in ((1, 1), (1, 0), (0, 1)):
            job(id='C.payload.pair.d%d.d%d.%d%d' % (d1, d2, has1, has2), tu=M_PAY.tu, defs=M_PAY.defs, entry='step_payload', key=[d1, has1, d2, has2], props=['C14', 'C01', 'C11'], unwind=12, objbits=12, timeout=900,
                tier='quick' if (has1, has2) == (1, 1) else 'thorough', carriers=[r'TransitionT<int>::TransitionT'], case_key='payload/pair/%d,%d/%d%d' % (d1, d2, has1, has2))
for d1, d2 in ((4, 1), (3, 5), (1, 4), (5, 2)):
    job(id='C.payload.schedule_pair.d%d.d%d' % (d1, d2), tu=M_PAY.tu, defs=M_PAY.defs, entry='step_payload', key=[d1, 2, d2, 1], props=['C14', 'C01', 'C11'], unwind=12, objbits=12, timeout=900,
        carriers=[r'RP_<.*>::scheduleWith', r'RP_<.*>::changeWith'], case_key='payload/scheduleWith(%d) + changeWith(%d) in one step' % (d1, d2))
machine_jobs(M_PAY, kinds=(0,), upd_kinds_quick=(), tier='thorough')

# ------------------------------------------------------------------ C16: logger / structure report (resumable machine, verbose and interface logging)
for mode, name in ((1, 'verbose'), (2, 'interface')):
    M_LOG = Machine('log_' + name, 'tier_c/m_resumable.cpp', [-1, 0, 0, 2, 2, 0], ['C', 'L', 'C', 'L', 'L', 'L'], defs={'VM_LOGGER': mode})
    base = dict(tu=M_LOG.tu, defs=M_LOG.defs, unwind=12, objbits=12, timeout=900,
                unwindset={'_ZL23check_log_mirrors_tracev.0': 202, '_ZL19body_logger_neutralii.0': 66, '_ZL19body_logger_neutralii.1': 66})   # loops of the harness itself (trace / log buffers)
    for d in range(1, M_LOG.n):
        for k in (0, 2):
            tier = 'quick' if (mode == 1 or k == 0) else 'thorough'
            job(id='C.%s.logger.%s.d%d' % (M_LOG.name, KIND_NAMES[k], d), entry='step_logger', key=[k, d], props=['C16', 'C01', 'C11'], tier=tier,
                carriers=[r'S_<.*>::deepEnter', r'FullControlBaseT<.*>::changeTo', r'GuardControlT<.*>::cancelPendingTransitions'], case_key='%s/logger mirrors callbacks/%s/dest=%d' % (name, KIND_NAMES[k], d), **base)
        job(id='C.%s.neutral.d%d' % (M_LOG.name, d), entry='step_logger_neutral', key=[0, d], props=['C16'], tier='quick' if mode == 1 else 'thorough', carriers=[], case_key='%s/logger neutrality/dest=%d' % (name, d), **base)
        if mode == 1:
            job(id='C.%s.structure.d%d' % (M_LOG.name, d), entry='step_structure', key=[0, d], props=['C16', 'C11'], carriers=[r'R_<.*>::udpateActivity'], case_key='structure report/dest=%d' % d, **base)
    for c in range(M_LOG.count(0)):
        i = max(M_LOG.active_set(c))
        for d in range(1, M_LOG.n):
            job(id='C.%s.logupd.c%d.d%d' % (M_LOG.name, c, d), entry='step_logger_update', key=[c, i, 0, d], props=['C16'], tier='quick' if (mode == 1 and d in (1, 4)) else 'thorough',
                carriers=[r'R_<.*>::update'], case_key='%s/logger during update/cfg=%d/dest=%d' % (name, c, d), **base)

# C16 on the orthogonal machine: several guards of one round (one per orthogonal prong) may each cancel - every cancellation must reach the logger
M_LOGO = Machine('log_ortho', 'tier_c/m_ortho.cpp', [-1, 0, 1, 2, 2, 1, 5, 5, 0], ['C', 'O', 'C', 'L', 'L', 'C', 'L', 'L', 'L'], defs={'VM_LOGGER': 1}, unwind=14)
for d in (1, 3, 7, 8):
    job(id='C.log_ortho.logger.change.d%d' % d, tu=M_LOGO.tu, defs=M_LOGO.defs, entry='step_logger', key=[0, d], props=['C16', 'C01'], quick_for=['C16'], unwind=14, objbits=12, timeout=1200,
        unwindset={'_ZL23check_log_mirrors_tracev.0': 202}, carriers=[r'GuardControlT<.*>::cancelPendingTransitions', r'S_<.*>::deepEntryGuard'], case_key='verbose/logger mirrors callbacks/orthogonal machine/change dest=%d' % d)

# C16 on the utility machine: rank()/utility() records; interface logging reports a method only for the states that override it (mixed overrides)
for _mode, _name in ((2, 'interface'), (1, 'verbose')):
    for _k, _r in ((4, 2), (5, 6)):
        job(id='C.log_util_%s.logger.%s.r%d' % (_name, KIND_NAMES[_k], _r), tu='tier_c/m_util.cpp', defs={'VM_LOGGER': _mode, 'VM_MIXED_OVERRIDES': None}, entry='step_logger', key=[_k, _r], props=['C16', 'C01'], quick_for=['C16'],
            tier='quick' if _mode == 2 else 'thorough', unwind=22, objbits=12, timeout=1200, unwindset={'_ZL23check_log_mirrors_tracev.0': 202},
            carriers=[r'S_<.*>::wrapUtility', r'S_<.*>::wrapRank'], case_key='%s/logger mirrors rank and utility callbacks/%s region %d' % (_name, KIND_NAMES[_k], _r))

M_UTILN = Machine('utiln', 'tier_c/m_util.cpp', [-1, 0, 0, 2, 3, 3, 2, 2, 7, 7, 9, 9], ['C', 'L', 'C', 'C', 'L', 'L', 'L', 'O', 'L', 'C', 'L', 'L'], defs={'VM_NESTED_UTIL': None}, unwind=26)
for region, full, tier in ((2, 0, 'quick'), (3, 0, 'quick'), (9, 0, 'quick')):       # (the variant that also asserts the product / mean rule of the enclosing region, key (2, 1), exceeds 24 GB in CBMC and is in no tier)
    job(id='C.utiln.utilize_nested.r%d%s' % (region, '.full' if full else ''), tu=M_UTILN.tu, defs=M_UTILN.defs, entry='step_utilize_nested', key=[region, full], props=['C12', 'C01', 'C02', 'C11'], unwind=26, objbits=12,
        timeout=1500, mem_gb=24, tier=tier, cbmc_flags=['--slice-formula'],
        carriers=[r'C_<.*>::deepReportUtilize', r'O_<.*>::deepReportUtilize', r'OS_<.*>::wideReportUtilize', r'C_<.*>::deepRequestUtilize'], case_key='nested utility/utilize region %d%s' % (region, ' incl. product/mean rule' if full else ''))

job(id='C.util.anonymous_defaults', tu='tier_c/m_util.cpp', defs={'VM_HEADLESS_UTIL': None}, entry='proof_anonymous_defaults', props=['C12', 'C02', 'C01'], unwind=18, objbits=12, timeout=600,
    carriers=[r'S_<.*>::wrapUtility', r'S_<.*>::deepReportUtilize', r'S_<.*>::wrapSelect'], case_key='anonymous head answers like the defaults')
for _kind, _key in (('utilize', 0), ('change', 2)):
    job(id='C.utilr.%s_resumable_in_util.r2' % _kind, tu='tier_c/m_util.cpp', defs={'VM_RESUMABLE_IN_UTIL': None}, entry='step_utilize_nested', key=[2, _key], props=['C12', 'C01', 'C02', 'C11'], unwind=20, objbits=12, timeout=1500, mem_gb=24,
        cbmc_flags=['--slice-formula'], carriers=[r'C_<.*>::deepReportChangeResumable|C_<.*>::deepReportChange', r'C_<.*>::deepRequestChangeUtilitarian|C_<.*>::deepRequestUtilize'],
        case_key='resumable region (3 wide) as an option of a utilitarian region (2 wide)/%s region 2' % _kind)
job(id='C.utilo.utilize_ortho_option.r2', tu='tier_c/m_util.cpp', defs={'VM_ORTHO_IN_UTIL': None}, entry='step_utilize_nested', key=[2, 0], props=['C12', 'C01', 'C02', 'C11'], unwind=28, objbits=12, timeout=1500, mem_gb=24,
    cbmc_flags=['--slice-formula'], carriers=[r'OS_<.*>::wideReportUtilize', r'O_<.*>::deepReportUtilize', r'C_<.*>::deepRequestUtilize'],
    case_key='orthogonal region (composite sub-region first, utilitarian in the middle, composite last) as an option of a utilitarian region/utilize region 2')
for _k in (5, 0):
    job(id='C.randr.randomize_regions.%s' % KIND_NAMES[_k], tu='tier_c/m_util.cpp', defs={'VM_RANDOM_WITH_REGION': None}, entry='step_randomize_regions', key=[_k, 2], props=['C12', 'C01', 'C11'], quick_for=['C12', 'C11'],
        unwind=20, objbits=12, timeout=1500, safety_always=True, carriers=[r'CS_<.*>::wideReportRank', r'CS_<.*>::wideReportRandomize', r'C_<.*>::resolveRandom'],
        case_key='random region whose first option is a region/%s region 2' % KIND_NAMES[_k])
# (a machine-level job for the headless nested region, step_utilize_nested on VM_HEADLESS_UTIL, exceeds 24 GB in CBMC - symbolic float products - and is in no tier;
#  the defect it was written for is decided by C.util.anonymous_defaults)

# ------------------------------------------------------------------ C11: request queue beyond capacity (known finding)
for m in (M_RES, M_NEST):
    job(id='C.%s.overrun' % m.name, tu=m.tu, defs=m.defs, entry='step_queue_overrun', props=['C11'], unwind=m.unwind, objbits=12, timeout=900, safety_always=True,
        carriers=[r'R_<.*>::changeTo', r'DynamicArrayT<.*>::emplace'], case_key='%s/capacity+1 queued requests' % m.name)

# ------------------------------------------------------------------ C15: same contracts under every feature set and both header flavours
def c15_machine(name, defs, flavour, tier='quick'):
    m = Machine(name, 'tier_c/m_resumable.cpp', [-1, 0, 0, 2, 2, 0], ['C', 'L', 'C', 'L', 'L', 'L'], defs=defs)
    base = dict(tu=m.tu, defs=m.defs, unwind=12, objbits=12, timeout=900, flavour=flavour, count_all_as='C15')
    job(id='C15.%s.init' % name, entry='proof_init', props=['C15'], tier=tier, carriers=[], case_key='%s/init' % name, **base)
    job(id='C15.%s.exit_enter' % name, entry='proof_exit_enter', props=['C15'], tier=tier, carriers=[], case_key='%s/exit+enter' % name, **base)
    for d in range(1, m.n):
        job(id='C15.%s.imm.change.d%d' % (name, d), entry='step_immediate', key=[0, d], props=['C15'], tier=tier, carriers=[], case_key='%s/immediate change dest=%d' % (name, d), **base)
        job(id='C15.%s.upd.d%d' % (name, d), entry='step_update', key=[1, 3, 0, d], props=['C15'], tier=tier if d in (1, 4) else 'thorough', carriers=[], case_key='%s/update cfg 1, issuer 3, change dest=%d' % (name, d), **base)
c15_machine('all_single', {}, 'single'); c15_machine('all_dev', {}, 'dev')
c15_machine('none_single', {'VM_FEATURES': 0}, 'single'); c15_machine('plans_serial_single', {'VM_FEATURES': 1}, 'single'); c15_machine('history_utility_single', {'VM_FEATURES': 2}, 'single')
c15_machine('none_dev', {'VM_FEATURES': 0}, 'dev', tier='thorough'); c15_machine('plans_serial_dev', {'VM_FEATURES': 1}, 'dev', tier='thorough'); c15_machine('history_utility_dev', {'VM_FEATURES': 2}, 'dev', tier='thorough')
# C05: handlers injected through StateT<...> (resumable machine, every state carries one injected handler)
_m = Machine('inject', 'tier_c/m_resumable.cpp', [-1, 0, 0, 2, 2, 0], ['C', 'L', 'C', 'L', 'L', 'L'], defs={'VM_INJECT': None})
for _c in range(_m.count(0)):
    for _e in ('step_order_update', 'step_order_react', 'step_order_query'):
        job(id='C.inject.%s.c%d' % (_e[5:], _c), tu=_m.tu, defs=_m.defs, entry=_e, key=[_c], props=['C05', 'C03'], quick_for=['C05'], unwind=12, objbits=12, timeout=900,
            carriers=[r'A_<.*>::wideUpdate|A_<.*>::widePreUpdate', r'A_<.*>::widePostUpdate|A_<.*>::widePostReact'], case_key='inject/%s/cfg=%d' % (_e[5:], _c))
for _d in range(1, _m.n):
    for _k in (0, 1):
        job(id='C.inject.imm.%s.d%d' % (KIND_NAMES[_k], _d), tu=_m.tu, defs=_m.defs, entry='step_immediate', key=[_k, _d], props=['C03', 'C01'], quick_for=['C03'], unwind=12, objbits=12, timeout=900,
            carriers=[r'A_<.*>::wideEnter', r'A_<.*>::wideReenter', r'A_<.*>::wideExit'], case_key='inject/immediate %s dest=%d' % (KIND_NAMES[_k], _d))
# Config option chains: bottom-up reactions alone, and with head-room options chained after / before it (C15: options never change unrelated behaviour; C05: bottom-up order)
for opt in (1, 2, 3):
    m = Machine('options%d' % opt, 'tier_c/m_resumable.cpp', [-1, 0, 0, 2, 2, 0], ['C', 'L', 'C', 'L', 'L', 'L'], defs={'VM_OPTIONS': opt})
    base = dict(tu=m.tu, defs=m.defs, unwind=20, objbits=12, timeout=900, count_all_as='C15')      # (task pool of 16 slots: its constructor loop needs 17 unwindings)
    for c in range(m.count(0)):
        for e in ('step_order_update', 'step_order_react', 'step_order_query'):
            job(id='C15.%s.%s.c%d' % (m.name, e[5:], c), entry=e, key=[c], props=['C15', 'C05'], quick_for=['C15', 'C05'] if (e == 'step_order_react' or c == 2) else ['C15'], carriers=[r'R_<.*>::react'] if e == 'step_order_react' else [],
                case_key='%s/%s/cfg=%d' % (m.name, e[5:], c), **base)
    for d in (1, 4):
        job(id='C15.%s.imm.change.d%d' % (m.name, d), entry='step_immediate', key=[0, d], props=['C15'], carriers=[], case_key='%s/immediate change dest=%d' % (m.name, d), **base)
# the plan executor exists twice (payload / void): the same plan shapes under both copies
for _pay in (0, 1):
    for _shape in (3, 4, 10):
        job(id='C15.plan_%s.c1.shape%d.a3.succeed' % ('payload' if _pay else 'void', _shape), tu='tier_c/m_plan.cpp', defs=({'VM_PLAN_PAYLOAD': None} if _pay else {}), entry='step_plan', key=[1, _shape, 3, 1], props=['C15', 'C06'],
            quick_for=['C15'], count_all_as='C15', unwind=14, objbits=12, timeout=900, carriers=[r'FullControlT<.*>::updatePlan'], case_key='plan executor %s copy/shape %d' % ('payload' if _pay else 'void', _shape))
for tu, defs in (('tier_c/m_resumable.cpp', {}), ('tier_c/m_ortho.cpp', {}), ('tier_c/m_util.cpp', {}), ('tier_c/m_plan.cpp', {}), ('tier_a/tasklist.cpp', {'CAP': 4}), ('tier_a/arrays.cpp', {'CAP': 4, 'CAP2': 3}),
                 ('tier_a/bits.cpp', {'VP_N': 17}), ('tier_a/random.cpp', {}), ('tier_b/registry.cpp', {}), ('tier_b/plans.cpp', {'VP_TCAP': 3}), ('tier_c/m_resumable.cpp', {'VM_FEATURES': 0})):
    job(id='C15.ir_equal.%s%s' % (tu.split('/')[1][:-4], '' if not defs else '.' + '_'.join('%s%s' % kv for kv in sorted(defs.items()))), tu=tu, defs=defs, entry='-', mode='ir_equal', props=['C15'], carriers=[],
        case_key='flavour IR equality/%s' % tu)
# Tier A under the development flavour
for tu, defs, entries, uw in (('tier_a/tasklist.cpp', {'CAP': 3}, ('proof_emplace', 'proof_remove', 'proof_clear'), 6), ('tier_a/bits.cpp', {'VP_N': 9}, ('proof_ba_index', 'proof_bits_view'), 18),
                              ('tier_a/random.cpp', {}, ('proof_x256plus', 'proof_uniform'), 6), ('tier_a/arrays.cpp', {'CAP': 2, 'CAP2': 3}, ('proof_da_bulk',), 6)):
    for e in entries:
        job(id='C15.dev.%s.%s' % (tu.split('/')[1][:-4], e[6:]), tu=tu, defs=defs, entry=e, props=['C15'], flavour='dev', count_all_as='C15', unwind=uw, unwindset={'verif_havoc.0': 4096}, objbits=10, carriers=[], case_key='dev flavour/%s/%s' % (tu, e))

# ------------------------------------------------------------------ C17: identifiers and structural metadata, per shape of a named family (+ seeded random shapes)
import os as _os, sys as _sys
_sys.path.insert(0, _os.path.join(_os.path.dirname(_os.path.dirname(_os.path.abspath(__file__))), 'tools'))
import shapes as _shapes
try: _seed = int(_os.environ.get('VERIF_SEED', '1') or 1)
except ValueError: _seed = 1
for _name, _shape, _tier in _shapes.family(_seed):
    _spec = _shapes.Spec(_shape)
    _ns = len(_spec.states)
    for _e in ('proof_shape_tables', 'proof_shape_dispatch'):
        job(id='C17.%s.%s' % (_name, _e[12:]), tu='tier_d/shape.cpp', defs=_spec.defines(), entry=_e, props=['C17'] + (['C11'] if _tier == 'quick' and _ns <= 12 and not _name.startswith('random') else []), quick_for=['C17'], tier=_tier,      # (seed-dependent shapes carry no C11 claim)
            unwind=max(_ns, 2 * _spec.prongs, 8 * _spec.units) + 3, objbits=12, timeout=900,
            carriers=[r'S_<.*>::deepRegister', r'C_<.*>::deepRegister|O_<.*>::deepRegister', r'RF_<.*>::stateId<'] if _e == 'proof_shape_tables' else [r'R_<.*>::immediateChangeTo|R_<.*>::changeTo', r'RegistryT<.*>::isActive'],
            case_key='shape %s = %s' % (_name, _spec.text()))

# ------------------------------------------------------------------ quick-tier selection per property (every job stays in the thorough tier of all its properties)
# (regex over job id, properties for which the job is part of the QUICK check); first match wins; jobs not matched keep their own quick_for
import re as _re
QUICK_TABLE = [
    (r'^C\.(resumable)\.(init|exit_enter|reset|cfg_count)$', None),                       # None = quick for every property of the job
    (r'^C\.(nested|ortho|select|plan)\.(init|exit_enter|reset|cfg_count)$', ['C01', 'C02', 'C03']),
    (r'^C\.resumable\.imm\.',            ['C01', 'C02', 'C03', 'C04', 'C13', 'C11']),
    (r'^C\.nested\.imm\.',               ['C01', 'C02', 'C03']),
    (r'^C\.select\.imm\.',               ['C01', 'C02']),
    (r'^C\.oroot\.imm\.',              ['C01', 'C02', 'C03', 'C04']),
    (r'^C\.oroot\.upd\.c\d+\.i\d+\.',  []),
    (r'^C\.oroot\.(init|exit_enter|reset|cfg_count)$', ['C01', 'C02', 'C03']),
    (r'^C\.ortho\.imm\.(change|resume)', ['C01', 'C03', 'C13']),            # (with the safety flags these 18 jobs cost 100 CPU-minutes: C11 runs them in the thorough tier)
    (r'^C\.ortho\.imm\.',                ['C02']),
    (r'^C\.plan\.imm\.',                 []),
    (r'^C\.resumable\.upd\.c\d+\.none$', ['C01', 'C02', 'C04', 'C11']),
    (r'^C\.ortho\.upd\.c\d+\.none$',     ['C01', 'C02', 'C04']),
    (r'^C\.\w+\.upd\.c\d+\.none$',       ['C02']),
    (r'^C\.plan\.upd\.',                 []),
    (r'^C\.nested\.upd\.c\d+\.i\d+\.(change)\.',    ['C02']),
    (r'^C\.nested\.upd\.c\d+\.i\d+\.',             []),
    (r'^C\.select\.upd\.c\d+\.i\d+\.(select)\.',  ['C02']),
    (r'^C\.select\.upd\.c\d+\.i\d+\.',             []),
    (r'^C\.ortho\.upd\.c[024]\.i\d+\.',             ['C02']),
    (r'^C\.ortho\.upd\.c\d+\.i\d+\.',              []),
    (r'^C\.resumable\.q2\.',              []),
    (r'^C\.plan\.c\d',                   ['C06']),
    (r'^C\.plan2\.',                     ['C06']),
    (r'^C\.plan3\.',                     ['C06']),
    (r'^C\.utiln\.utilize_nested\.r2$',  ['C12', 'C01']),
    (r'^C\.randr\.',                    ['C12', 'C11']),
    (r'^C\.utilr\.',                    ['C12', 'C01']),
    (r'^C\.utilo\.',                    ['C12', 'C02']),
    (r'^C\.util',                        ['C12']),
    (r'^C\.payload\.',                   ['C14']),
    (r'^C\.log_',                        ['C16']),
    (r'^C\.\w+\.order_',                 ['C05']),
    (r'^C\.\w+\.overrun$',               ['C11']),
    (r'^B\.plans\.',                     ['C07', 'C11', 'C14']),
    (r'^B\.registry\.',                  None),
    (r'^C10\.',                          ['C10']),
    (r'^C15\.',                          ['C15']),
    (r'^C19\.dfcc\.',                   ['C19']),
    (r'^C19\.pool\.cap[24]\.',           None),
    (r'^C19\.pool\.',                    ['C19']),
    (r'^C19\.array\.cap(2_3|4_3)\.int\.da_copy_clear', None),
    (r'^C19\.array\.cap(2_3|4_3)',       None),
    (r'^C19\.array\.',                   ['C19']),
    (r'^C18\.dfcc\.',                   ['C18']),
    (r'^C18\.bitarray\.n(9|17)\.',       None),
    (r'^C18\.bitarray\.',                ['C18']),
    (r'^C18\.stream\.c31\.',             None),
    (r'^C18\.stream\.',                  ['C18']),
    (r'^C20\.',                          ['C20']),
]
for _j in JOBS:
    for _pat, _q in QUICK_TABLE:
        if _re.search(_pat, _j['id']):
            if _q is None: _j.pop('quick_for', None)
            else: _j['quick_for'] = _q
            break
