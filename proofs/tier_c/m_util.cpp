// Sample machine: headless composite root, a utilitarian region and a random region, three leaves each.   10 states, 3 composite forks.
#define HFSM2_ENABLE_PLANS
#define HFSM2_ENABLE_SERIALIZATION
#define HFSM2_ENABLE_TRANSITION_HISTORY
#define HFSM2_ENABLE_UTILITY_THEORY
#ifdef VM_LOGGER
#if VM_LOGGER == 2
#define HFSM2_ENABLE_LOG_INTERFACE
#else
#define HFSM2_ENABLE_VERBOSE_DEBUG_LOG
#endif
#define HFSM2_ENABLE_STRUCTURE_REPORT
#endif
#include "common/verif.hpp"
using namespace hfsm2; using namespace hfsm2::detail;
static unsigned g_rng_draws_; static float g_rng_last_;
static bool g_rng_grid; static uint32_t g_rng_m;      // grid mode: the generator returns m / 2^20 (exactly representable; products with small integer sums are exact)
struct Rng { float next() {
  float f;
  if (g_rng_grid) { g_rng_m = nd_u32(); VASSUME(g_rng_m < (1u << 20)); f = (float) g_rng_m * (1.0f / 1048576.0f); }
  else { f = nd_f32(); VASSUME(f >= 0.0f && f < 1.0f); }
  ++g_rng_draws_; g_rng_last_ = f; return f; } };
using Cfg = hfsm2::Config::ManualActivation::RandomT<Rng>;
using M = hfsm2::MachineT<Cfg>;
#define S(s) struct s
#define VM_UTILITY 1
#if defined(VM_HEADLESS_UTIL)
// utilitarian region whose FIRST prong is a HEADLESS nested utilitarian region (UtilitarianPeers) next to a leaf: the anonymous
// head defines nothing, so it must count like a state with the default utility() (1): the nested region is worth its best sub-state
using FSM = M::PeerRoot< S(A), M::Utilitarian<S(U), M::UtilitarianPeers<S(V1), S(V2)>, S(U1)> >;
#define VM_NS 7
#define VM_NC 3
#define VM_HAS_STUB(s) ((s) != 0 && (s) != 3)
#include "tier_c/spec_types.hpp"
static const VSpec VM_SPEC[VM_NS] = {
  /*0  root*/ { -1, 0, K_COMPO, 2, ST_COMPOSITE,   0 },
  /*1  A   */ {  0, 0, K_LEAF,  0, ST_NONE,       -1 },
  /*2  U   */ {  0, 1, K_COMPO, 2, ST_UTILITARIAN, 1 },
  /*3  (V) */ {  2, 0, K_COMPO, 2, ST_UTILITARIAN, 2 },
  /*4  V1  */ {  3, 0, K_LEAF,  0, ST_NONE,       -1 },
  /*5  V2  */ {  3, 1, K_LEAF,  0, ST_NONE,       -1 },
  /*6  U1  */ {  2, 1, K_LEAF,  0, ST_NONE,       -1 },
};
#define VM_NCFG 4
#include "tier_c/machine_common.hpp"
struct A : St<1> {}; struct U : St<2> {}; struct V1 : St<4> {}; struct V2 : St<5> {}; struct U1 : St<6> {};
#define VM_FOR_STATES(F_) F_(A, 1) F_(U, 2) F_(V1, 4) F_(V2, 5) F_(U1, 6)
#elif defined(VM_RESUMABLE_IN_UTIL)
// utilitarian region whose FIRST prong is a RESUMABLE region wider than the utilitarian region itself, next to a leaf
// (a region evaluated by its parent reports ITS OWN prong in the parent, whatever sub-state it would resume)
using FSM = M::PeerRoot< S(A), M::Utilitarian<S(U), M::Resumable<S(R), S(R1), S(R2), S(R3)>, S(U1)> >;
#define VM_NS 8
#define VM_NC 3
#include "tier_c/spec_types.hpp"
static const VSpec VM_SPEC[VM_NS] = {
  /*0  root*/ { -1, 0, K_COMPO, 2, ST_COMPOSITE,   0 },
  /*1  A   */ {  0, 0, K_LEAF,  0, ST_NONE,       -1 },
  /*2  U   */ {  0, 1, K_COMPO, 2, ST_UTILITARIAN, 1 },
  /*3  R   */ {  2, 0, K_COMPO, 3, ST_RESUMABLE,   2 },
  /*4  R1  */ {  3, 0, K_LEAF,  0, ST_NONE,       -1 },
  /*5  R2  */ {  3, 1, K_LEAF,  0, ST_NONE,       -1 },
  /*6  R3  */ {  3, 2, K_LEAF,  0, ST_NONE,       -1 },
  /*7  U1  */ {  2, 1, K_LEAF,  0, ST_NONE,       -1 },
};
#define VM_NCFG 5
#include "tier_c/machine_common.hpp"
struct A : St<1> {}; struct U : St<2> {}; struct R : St<3> {}; struct R1 : St<4> {}; struct R2 : St<5> {}; struct R3 : St<6> {}; struct U1 : St<7> {};
#define VM_FOR_STATES(F_) F_(A, 1) F_(U, 2) F_(R, 3) F_(R1, 4) F_(R2, 5) F_(R3, 6) F_(U1, 7)
#elif defined(VM_ORTHO_IN_UTIL)
// utilitarian region whose FIRST option is an orthogonal region with a plain COMPOSITE sub-region first, a utilitarian one in the middle
// and another plain composite one last: utilize(U) must resolve every region it enters by utility - first, middle and last sub-region alike
using FSM = M::PeerRoot< S(A), M::Utilitarian<S(U), M::Orthogonal<S(O), M::Composite<S(P), S(P1), S(P2)>, M::Utilitarian<S(W), S(W1), S(W2)>, M::Composite<S(Q), S(Q1), S(Q2)>>, S(U1)> >;
#define VM_NS 14
#define VM_NC 5
#include "tier_c/spec_types.hpp"
static const VSpec VM_SPEC[VM_NS] = {
  /*0  root*/ { -1, 0, K_COMPO, 2, ST_COMPOSITE,   0 },
  /*1  A   */ {  0, 0, K_LEAF,  0, ST_NONE,       -1 },
  /*2  U   */ {  0, 1, K_COMPO, 2, ST_UTILITARIAN, 1 },
  /*3  O   */ {  2, 0, K_ORTHO, 3, ST_NONE,        0 },
  /*4  P   */ {  3, 0, K_COMPO, 2, ST_COMPOSITE,   2 },
  /*5  P1  */ {  4, 0, K_LEAF,  0, ST_NONE,       -1 },
  /*6  P2  */ {  4, 1, K_LEAF,  0, ST_NONE,       -1 },
  /*7  W   */ {  3, 1, K_COMPO, 2, ST_UTILITARIAN, 3 },
  /*8  W1  */ {  7, 0, K_LEAF,  0, ST_NONE,       -1 },
  /*9  W2  */ {  7, 1, K_LEAF,  0, ST_NONE,       -1 },
  /*10 Q   */ {  3, 2, K_COMPO, 2, ST_COMPOSITE,   4 },
  /*11 Q1  */ { 10, 0, K_LEAF,  0, ST_NONE,       -1 },
  /*12 Q2  */ { 10, 1, K_LEAF,  0, ST_NONE,       -1 },
  /*13 U1  */ {  2, 1, K_LEAF,  0, ST_NONE,       -1 },
};
#define VM_NCFG 10
#include "tier_c/machine_common.hpp"
struct A : St<1> {}; struct U : St<2> {}; struct O : St<3> {}; struct P : St<4> {}; struct P1 : St<5> {}; struct P2 : St<6> {};
struct W : St<7> {}; struct W1 : St<8> {}; struct W2 : St<9> {}; struct Q : St<10> {}; struct Q1 : St<11> {}; struct Q2 : St<12> {}; struct U1 : St<13> {};
#define VM_FOR_STATES(F_) F_(A, 1) F_(U, 2) F_(O, 3) F_(P, 4) F_(P1, 5) F_(P2, 6) F_(W, 7) F_(W1, 8) F_(W2, 9) F_(Q, 10) F_(Q1, 11) F_(Q2, 12) F_(U1, 13)
#elif defined(VM_RANDOM_WITH_REGION)
// random region whose FIRST option is itself a region (a composite with two leaves), followed by two leaves
using FSM = M::PeerRoot< S(A), M::Random<S(N), M::Composite<S(P), S(P1), S(P2)>, S(N2), S(N3)> >;
#define VM_NS 8
#define VM_NC 3
#include "tier_c/spec_types.hpp"
static const VSpec VM_SPEC[VM_NS] = {
  /*0 root*/ { -1, 0, K_COMPO, 2, ST_COMPOSITE, 0 },
  /*1 A   */ {  0, 0, K_LEAF,  0, ST_NONE,     -1 },
  /*2 N   */ {  0, 1, K_COMPO, 3, ST_RANDOM,    1 },
  /*3 P   */ {  2, 0, K_COMPO, 2, ST_COMPOSITE, 2 },
  /*4 P1  */ {  3, 0, K_LEAF,  0, ST_NONE,     -1 },
  /*5 P2  */ {  3, 1, K_LEAF,  0, ST_NONE,     -1 },
  /*6 N2  */ {  2, 1, K_LEAF,  0, ST_NONE,     -1 },
  /*7 N3  */ {  2, 2, K_LEAF,  0, ST_NONE,     -1 },
};
#define VM_NCFG 5
#include "tier_c/machine_common.hpp"
struct A : St<1> {}; struct N : St<2> {}; struct P : St<3> {}; struct P1 : St<4> {}; struct P2 : St<5> {}; struct N2 : St<6> {}; struct N3 : St<7> {};
#define VM_FOR_STATES(F_) F_(A, 1) F_(N, 2) F_(P, 3) F_(P1, 4) F_(P2, 5) F_(N2, 6) F_(N3, 7)
#elif defined(VM_NESTED_UTIL)
// utilitarian region whose FIRST prong is a nested utilitarian region, a leaf, and an orthogonal prong containing another utilitarian region
// (utility of a nested region = head x chosen sub; orthogonal = head x mean)
using FSM = M::PeerRoot< S(A), M::Utilitarian<S(U), M::Utilitarian<S(V), S(V1), S(V2)>, S(U1), M::Orthogonal<S(O), S(O1), M::Utilitarian<S(W), S(W1), S(W2)>>> >;
#define VM_NS 12
#define VM_NC 4
#include "tier_c/spec_types.hpp"
static const VSpec VM_SPEC[VM_NS] = {
  /*0  root*/ { -1, 0, K_COMPO, 2, ST_COMPOSITE,   0 },
  /*1  A   */ {  0, 0, K_LEAF,  0, ST_NONE,       -1 },
  /*2  U   */ {  0, 1, K_COMPO, 3, ST_UTILITARIAN, 1 },
  /*3  V   */ {  2, 0, K_COMPO, 2, ST_UTILITARIAN, 2 },
  /*4  V1  */ {  3, 0, K_LEAF,  0, ST_NONE,       -1 },
  /*5  V2  */ {  3, 1, K_LEAF,  0, ST_NONE,       -1 },
  /*6  U1  */ {  2, 1, K_LEAF,  0, ST_NONE,       -1 },
  /*7  O   */ {  2, 2, K_ORTHO, 2, ST_NONE,        0 },
  /*8  O1  */ {  7, 0, K_LEAF,  0, ST_NONE,       -1 },
  /*9  W   */ {  7, 1, K_COMPO, 2, ST_UTILITARIAN, 3 },
  /*10 W1  */ {  9, 0, K_LEAF,  0, ST_NONE,       -1 },
  /*11 W2  */ {  9, 1, K_LEAF,  0, ST_NONE,       -1 },
};
#define VM_NCFG 6
#include "tier_c/machine_common.hpp"
struct A : St<1> {}; struct U : St<2> {}; struct V : St<3> {}; struct V1 : St<4> {}; struct V2 : St<5> {}; struct U1 : St<6> {};
struct O : St<7> {}; struct O1 : St<8> {}; struct W : St<9> {}; struct W1 : St<10> {}; struct W2 : St<11> {};
#define VM_FOR_STATES(F_) F_(A, 1) F_(U, 2) F_(V, 3) F_(V1, 4) F_(V2, 5) F_(U1, 6) F_(O, 7) F_(O1, 8) F_(W, 9) F_(W1, 10) F_(W2, 11)
#else
using FSM = M::PeerRoot< S(A), M::Utilitarian<S(U), S(U1), S(U2), S(U3)>, M::Random<S(N), S(N1), S(N2), S(N3)> >;
#define VM_NS 10
#define VM_NC 3
#include "tier_c/spec_types.hpp"
static const VSpec VM_SPEC[VM_NS] = {
  /*0 root*/ { -1, 0, K_COMPO, 3, ST_COMPOSITE,   0 },
  /*1 A   */ {  0, 0, K_LEAF,  0, ST_NONE,       -1 },
  /*2 U   */ {  0, 1, K_COMPO, 3, ST_UTILITARIAN, 1 },
  /*3 U1  */ {  2, 0, K_LEAF,  0, ST_NONE,       -1 },
  /*4 U2  */ {  2, 1, K_LEAF,  0, ST_NONE,       -1 },
  /*5 U3  */ {  2, 2, K_LEAF,  0, ST_NONE,       -1 },
  /*6 N   */ {  0, 2, K_COMPO, 3, ST_RANDOM,      2 },
  /*7 N1  */ {  6, 0, K_LEAF,  0, ST_NONE,       -1 },
  /*8 N2  */ {  6, 1, K_LEAF,  0, ST_NONE,       -1 },
  /*9 N3  */ {  6, 2, K_LEAF,  0, ST_NONE,       -1 },
};
#define VM_NCFG 7
#include "tier_c/machine_common.hpp"
struct A : St<1> {}; struct U : St<2> {}; struct U1 : St<3> {}; struct U2 : St<4> {}; struct U3 : St<5> {}; struct N : St<6> {}; struct N1 : St<7> {}; struct N2 : St<8> {}; struct N3 : St<9> {};
#define VM_FOR_STATES(F_) F_(A, 1) F_(U, 2) F_(U1, 3) F_(U2, 4) F_(U3, 5) F_(N, 6) F_(N1, 7) F_(N2, 8) F_(N3, 9)
#endif
#include "tier_c/view.hpp"
#include "tier_c/steps.hpp"
#include "tier_c/entries.hpp"
