// Tier C (DESIGN.md 4.3): inductive step proofs on lowered machine instantiations.
// A machine file defines, before including this header:
//   FSM            the HFSM2 declaration,   VM_NS  number of states,   VM_NC number of composite forks
//   VM_SPEC[]      the specification table, written by hand from the DECLARATION (never read from HFSM2's own tables)
// and afterwards the user-state types St<ID> are bound to the declaration's forward-declared state structs.
#pragma once

// ------------------------------------------------------------------------------------------------ ghost monitors
#ifndef VM_ROOT_HAS_STUB
#define VM_ROOT_HAS_STUB 0      /* headless roots: state 0 is anonymous and runs no user code */
#endif
#ifndef VM_HAS_STUB
#define VM_HAS_STUB(s) ((s) != 0 || VM_ROOT_HAS_STUB)
#endif
static bool     g_entered[VM_NS];        // C03: enter/exit alternation
static uint8_t  g_enter_count[VM_NS], g_exit_count[VM_NS];
static const void* g_this[VM_NS];       // C03: the object each state's callbacks are delivered to (must be the one access<State>() returns)
static bool     g_this_consistent = true;
static bool     g_protocol_ok = true;    // set false by any monitor violation that is also asserted at the spot
// case key (assigned concretely by the entry wrappers)
static int      g_issuer = -1;           // state id whose update()/react() issues a request (-1: none)
static int      g_issue_kind = 0;        // TransitionType of the issued request
static int      g_issue_dest = 0;
static int      g_issuer2 = -1, g_issue_kind2 = 0, g_issue_dest2 = 0;
// C04 round monitor
static bool     g_in_processing;         // between the first guard of a step and the end of the step
static bool     g_round_cancelled;       // some guard of the current round cancelled
static bool     g_exit_guard_ran[VM_NS], g_entry_guard_ran[VM_NS];
static unsigned g_guard_calls;
static bool     g_guards_forbidden;      // replay must not consult guards (C09)
static bool     g_watch_pending;         // C13: guards record what isPendingEnter/Exit/Change answer for every state (single pending request)
static uint8_t  g_pend_seen, g_pend_enter[VM_NS], g_pend_exit[VM_NS], g_pend_change[VM_NS]; static bool g_pend_stable = true;
static uint8_t  g_pend_req[VM_NS], g_pend_act[VM_NS];   // requested / active prong of the nearest composite region above each state, as the guards saw them
static bool     g_expect_guards;         // request-processing steps: no state is exited / entered before its own guard was consulted (C04)
// C04 substitution: the guard of state g_sub_guard (entry guard if g_sub_is_entry) vetoes round 1 and requests g_sub_dest instead
static int      g_sub_guard = -1, g_sub_dest = 0; static bool g_sub_is_entry = true, g_sub_done, g_sub_forever;
static int      g_round_now; static bool g_cancel_round[3]; static unsigned g_sub_guard_calls;
static int      g_pp_a = -1, g_pp_b = -1; static unsigned g_pp_rounds;   // C04 'ping-pong': the entry guard of the state a round is about to enter APPROVES and requests the other of two destinations
static bool     g_sub_veto2;             // with g_sub_nocancel: the guards of the SECOND round (the one the keyed guard asked for) may veto it, symbolically
static bool     g_sub_nocancel;          // the keyed guard requests g_sub_dest WITHOUT vetoing (a second approved round in one step)
// C02/C12: answers of select()/rank()/utility(): symbolic, one answer per state and step (memoised), recorded for the oracle
static bool     g_sel_called[VM_NS], g_rank_called[VM_NS], g_util_called[VM_NS];
static uint8_t  g_sel_val[VM_NS]; static int8_t g_rank_val[VM_NS]; static float g_util_val[VM_NS];
static unsigned g_rng_draws; static float g_rng_val;
// C06 plans: the keyed actor succeeds / fails in its update(); heads record the notifications they receive
static int      g_actor = -1, g_action = 0;      // action: 1 = succeed(), 2 = fail()
static int      g_actor2 = -1, g_action2 = 0;    // a second reporting state (orthogonal prongs reporting in the same step)
static uint8_t  g_plan_succeeded[VM_NS], g_plan_failed[VM_NS];
// C14 payloads: the step's requests in order (destination, has payload, value); checked in guards, on enter and afterwards
static int      g_pay_n; static int g_pay_dest[2]; static bool g_pay_has[2]; static int32_t g_pay_val[2];
// C16: every user-defined callback in order (state, Method), and what the logger was told
static uint8_t  g_trace_state[160], g_trace_method[160]; static unsigned g_trace_len;
static uint8_t  g_log_state[200], g_log_method[200]; static unsigned g_log_len;
static unsigned g_log_transitions, g_log_cancels, g_requests_issued, g_cancels_issued; static int g_log_last_target = -1, g_log_last_type = -1;
static bool     g_deterministic;             // guards never cancel (two-run neutrality check)
static void trace_push(int s, Method m) { if (g_trace_len < sizeof g_trace_state) { g_trace_state[g_trace_len] = (uint8_t) s; g_trace_method[g_trace_len] = (uint8_t) m; } ++g_trace_len; }
// C05 delivery order
static uint8_t  g_seq_state[4 * VM_NS + 4], g_seq_phase[4 * VM_NS + 4]; static unsigned g_seq_len;
static int      g_consumer = -1, g_consume_phase = -1;   // which state consumes in which phase (symbolic choice made by the harness)
enum Phase : uint8_t { PH_PRE_UPDATE, PH_UPDATE, PH_POST_UPDATE, PH_PRE_REACT, PH_REACT, PH_POST_REACT, PH_QUERY };
static void seq_push(int s, int ph) { if (g_seq_len < sizeof g_seq_state) { g_seq_state[g_seq_len] = (uint8_t) s; g_seq_phase[g_seq_len] = (uint8_t) ph; } ++g_seq_len; }

// ------------------------------------------------------------------------------------------------ spec helpers (declaration only)
static inline bool spec_is_ancestor_or_self(int a, int s) { for (int k = 0; k <= VM_NS; ++k) { if (s == a) return true; if (s < 0) return false; s = VM_SPEC[s].parent; } return false; }

// ------------------------------------------------------------------------------------------------ user-state stubs
struct Ev { int tag; };
#ifdef VM_INJECT
// C05: handlers injected through StateT<...> run before the state's own handler on the way down (pre-, update, react, query) and after
// it on the way up (post-).  The injected handler and the own handler of a state leave marks for each other; a delivery that
// reaches only one of the two, or in the wrong order, trips an assertion on the spot, leftovers at the end of the step.
static uint8_t g_inj_mark[VM_NS], g_own_mark[VM_NS];
static bool    g_inj_entered[VM_NS];      // C03 for the injected handlers: enter / exit alternate, reenter only while entered
static void inj_down(int id, int ph)  { VASSERT(C05, g_inj_mark[id] == 0, "an injected handler runs once per delivery"); g_inj_mark[id] = (uint8_t)(ph + 1); }
static void own_down(int id, int ph)  { VASSERT(C05, g_inj_mark[id] == ph + 1, "an injected handler runs before the state's own handler on the way down"); g_inj_mark[id] = 0; }
static void own_up(int id, int ph)    { VASSERT(C05, g_own_mark[id] == 0, "a state's own handler runs once per delivery"); g_own_mark[id] = (uint8_t)(ph + 1); }
static void inj_up(int id, int ph)    { VASSERT(C05, g_own_mark[id] == ph + 1, "an injected handler runs after the state's own handler on the way up"); g_own_mark[id] = 0; }
template <int ID>
struct Inj : FSM::State {
  using Base = FSM::State;
  void enter(typename Base::PlanControl&)   { VASSERT(C03, !g_inj_entered[ID], "injected handlers: enter and exit strictly alternate, beginning with enter"); g_inj_entered[ID] = true; }
  void reenter(typename Base::PlanControl&) { VASSERT(C03, g_inj_entered[ID], "injected handlers: reenter is delivered only to an entered state"); }
  void exit(typename Base::PlanControl&)    { VASSERT(C03, g_inj_entered[ID], "injected handlers: exit is delivered only to an entered state"); g_inj_entered[ID] = false; }
  void preUpdate(typename Base::FullControl&)  { inj_down(ID, 0); }
  void update(typename Base::FullControl&)     { inj_down(ID, 1); }
  void postUpdate(typename Base::FullControl&) { inj_up(ID, 2); }
  void preReact(const Ev&, typename Base::EventControl&)  { inj_down(ID, 3); }
  void react(const Ev&, typename Base::EventControl&)     { inj_down(ID, 4); }
  void postReact(const Ev&, typename Base::EventControl&) { inj_up(ID, 5); }
  void query(Ev&, typename Base::ConstControl&) const     { inj_down(ID, 6); }
};
#define VM_STATE_BASE(ID) FSM::StateT<Inj<ID>>
#define OWN_DOWN(ph) own_down(ID, ph)
#define OWN_UP(ph)   own_up(ID, ph)
#else
#define VM_STATE_BASE(ID) FSM::State
#define OWN_DOWN(ph)
#define OWN_UP(ph)
#endif
#if defined(VM_UTILITY) && defined(VM_MIXED_OVERRIDES)
// C16 (interface logging reports a method only for states that OVERRIDE it): states with an even id override utility() but NOT rank()
#define VM_HAS_RANK(ID) ((ID) % 2 == 1)
#else
#define VM_HAS_RANK(ID) 1
#endif
#ifdef VM_UTILITY
template <int ID, bool HAS_RANK> struct StRankLayer;
template <int ID> struct StRankLayer<ID, true> : VM_STATE_BASE(ID) {
  using Base = FSM::State;
  typename Base::Rank rank(const typename Base::Control&) {
    trace_push(ID, Method::RANK);
    if (!g_rank_called[ID]) { g_rank_called[ID] = true; g_rank_val[ID] = nd_i8(); VASSUME(g_rank_val[ID] >= -1 && g_rank_val[ID] <= 1); }
    return g_rank_val[ID];
  }
};
template <int ID> struct StRankLayer<ID, false> : VM_STATE_BASE(ID) {};       // inherits State::rank() == 0
#define VM_ST_PARENT(ID) StRankLayer<ID, VM_HAS_RANK(ID)>
#else
#define VM_ST_PARENT(ID) VM_STATE_BASE(ID)
#endif
template <int ID>
struct St : VM_ST_PARENT(ID) {
  using Base = FSM::State;
#ifdef VM_PAYLOAD
  template <typename TS> static void check_payloads(const TS& ts, bool all_present) {
    if (g_pay_n == 0) return;
    if (all_present) VASSERT(C14, ts.count() == (unsigned) g_pay_n, "guards see exactly the step's requests as pending");
    for (unsigned i = 0; i < ts.count() && i < 2; ++i) {
      VASSERT(C14, ts[i].destination == (StateID) g_pay_dest[i], "requests keep their order");
      const int32_t* p = ts[i].payload();
      if (g_pay_has[i]) VASSERT(C14, p != nullptr && *p == g_pay_val[i], "the payload of a request is delivered unchanged (payloads of different requests never mix)");
      else VASSERT(C14, p == nullptr, "a request without a payload exposes none");
    }
  }
#endif
  template <typename GC> static void guard_common(GC& c, bool is_entry) {
#ifdef VM_PAYLOAD
    check_payloads(c.pendingTransitions(), true);
#endif
    if (g_watch_pending) {
      for (int s = 0; s < VM_NS; ++s) {
        const bool e = c.isPendingEnter((StateID) s), x = c.isPendingExit((StateID) s), ch = c.isPendingChange((StateID) s);
        if (g_pend_seen && (g_pend_enter[s] != e || g_pend_exit[s] != x || g_pend_change[s] != ch)) g_pend_stable = false;
        g_pend_enter[s] = e; g_pend_exit[s] = x; g_pend_change[s] = ch;
        int b = s, a = VM_SPEC[s].parent; while (a >= 0 && VM_SPEC[a].kind != K_COMPO) { b = a; a = VM_SPEC[a].parent; }
        g_pend_req[s] = a >= 0 ? c._core.registry.compoRequested[VM_SPEC[a].fork] : INVALID_PRONG;
        g_pend_act[s] = a >= 0 ? c._core.registry.compoActive[VM_SPEC[a].fork] : INVALID_PRONG;
        (void) b;
      }
      g_pend_seen = 1;
    }
    VASSERT(C09, !g_guards_forbidden, "replay does not consult guards");
    ++g_guard_calls; g_in_processing = true;
    int round = 1;
    if (g_sub_guard >= 0 && !g_sub_forever && c.pendingTransitions().count() > 0 && c.pendingTransitions()[0].destination == (StateID) g_sub_dest) round = 2;
    g_round_now = round;
    bool cancel;
    if (g_pp_a >= 0) {
      cancel = false;
      if (is_entry && c.pendingTransitions().count() > 0 && c.pendingTransitions()[0].destination == (StateID) ID && (ID == g_pp_a || ID == g_pp_b)) {
        ++g_pp_rounds;
        if (g_pp_rounds < 9) c.changeTo((StateID) (ID == g_pp_a ? g_pp_b : g_pp_a));      // (gives up after 8 so that a library without a bound still yields a finite run)
      }
    } else
    if (ID == g_sub_guard && is_entry == g_sub_is_entry && g_sub_nocancel && !g_sub_done) {
      g_sub_done = true; cancel = false; c.changeTo((StateID) g_sub_dest);
    } else if (ID == g_sub_guard && is_entry == g_sub_is_entry && !g_sub_nocancel && (g_sub_forever || (round == 1 && !g_sub_done))) {
      g_sub_done = true; ++g_sub_guard_calls; cancel = true; c.cancelPendingTransitions(); c.changeTo((StateID) g_sub_dest);
    } else if (g_sub_guard >= 0 && (round == 1 || (g_sub_nocancel && !g_sub_veto2))) { cancel = false;          // substitution jobs: in round 1 only the keyed guard vetoes (keeps the request queue concrete, DESIGN L2)
    } else { cancel = g_deterministic ? false : nd_bool(); if (cancel) c.cancelPendingTransitions(); }
    if (cancel) { g_cancel_round[round] = true; g_round_cancelled = true; ++g_cancels_issued; }
  }
  void note_this() { if (g_this[ID] && g_this[ID] != (const void*) this) g_this_consistent = false; g_this[ID] = (const void*) this; }
  void entryGuard(typename Base::GuardControl& c) { trace_push(ID, Method::ENTRY_GUARD); g_entry_guard_ran[ID] = true; guard_common(c, true); }
  void exitGuard(typename Base::GuardControl& c) {
    VASSERT(C03, g_entered[ID], "exitGuard is delivered only to an entered state");
    trace_push(ID, Method::EXIT_GUARD); g_exit_guard_ran[ID] = true; guard_common(c, false);
  }
  void enter(typename Base::PlanControl& c) {
#ifdef VM_PAYLOAD
    if (g_pay_n) { check_payloads(c.currentTransitions(), false); VASSERT(C14, c.currentTransitions().count() == (unsigned) g_pay_n, "states being entered read the step's transitions from currentTransitions()"); }
#endif
    (void) c; trace_push(ID, Method::ENTER); note_this();
    if (g_expect_guards) VASSERT(C04, g_entry_guard_ran[ID], "a state is entered only after its entry guard was consulted in this step");
    VASSERT(C03, !g_entered[ID], "enter and exit strictly alternate, beginning with enter");
    VASSERT(C03, VM_SPEC[ID].parent < 0 || !VM_HAS_STUB(VM_SPEC[ID].parent) || g_entered[VM_SPEC[ID].parent], "a state is entered after its parent");
    g_entered[ID] = true; ++g_enter_count[ID];
  }
  void reenter(typename Base::PlanControl&) { trace_push(ID, Method::REENTER); VASSERT(C03, g_entered[ID], "reenter is delivered only to an entered state"); }
  void exit(typename Base::PlanControl&) {
    trace_push(ID, Method::EXIT); note_this();
    VASSERT(C03, g_entered[ID], "exit is delivered only to an entered state");
    if (g_expect_guards) VASSERT(C04, g_exit_guard_ran[ID], "a state is exited only after its exit guard was consulted in this step");
    for (int c = ID + 1; c < VM_NS; ++c) if (VM_SPEC[c].parent == ID) VASSERT(C03, !g_entered[c], "a state is exited after its sub-states");
    g_entered[ID] = false; ++g_exit_count[ID];
  }
  Prong select(const typename Base::Control&) {
    trace_push(ID, Method::SELECT);
    if (!g_sel_called[ID]) { g_sel_called[ID] = true; g_sel_val[ID] = nd_u8(); VASSUME(g_sel_val[ID] < VM_SPEC[ID].width); }   // documented precondition: below the region width
    return g_sel_val[ID];
  }
#ifdef VM_UTILITY
  typename Base::Utility utility(const typename Base::Control&) {
    trace_push(ID, Method::UTILITY);
    if (!g_util_called[ID]) { g_util_called[ID] = true; g_util_val[ID] = nd_f32(); VASSUME(g_util_val[ID] >= 0.0f && g_util_val[ID] <= 1000.0f); }   // finite, non-negative
    return g_util_val[ID];
  }
#endif
  void issue(typename Base::FullControl& c) {
    if (ID == g_issuer)  request(c, g_issue_kind,  g_issue_dest);
    if (ID == g_issuer2) request(c, g_issue_kind2, g_issue_dest2);
  }
  template <typename TC> static void request(TC& c, int kind, int dest) {
    ++g_requests_issued;
    switch (kind) {
      case 0: c.changeTo((StateID) dest); break;
      case 1: c.restart((StateID) dest); break;
      case 2: c.resume((StateID) dest); break;
      case 3: c.select((StateID) dest); break;
#ifdef HFSM2_ENABLE_UTILITY_THEORY
      case 4: c.utilize((StateID) dest); break;
      case 5: c.randomize((StateID) dest); break;
#endif
      default: c.schedule((StateID) dest); break;
    }
  }
  void preUpdate(typename Base::FullControl&)  { VASSERT(C03, g_entered[ID], "preUpdate is delivered only to an entered state"); seq_push(ID, PH_PRE_UPDATE); trace_push(ID, Method::PRE_UPDATE); OWN_DOWN(0); }
  void update(typename Base::FullControl& c)   { VASSERT(C03, g_entered[ID], "update is delivered only to an entered state"); seq_push(ID, PH_UPDATE); trace_push(ID, Method::UPDATE); OWN_DOWN(1); note_this(); issue(c);
#ifdef VM_PLANS
    if (ID == g_actor) { if (g_action == 1) c.succeed(); if (g_action == 2) c.fail(); }
    if (ID == g_actor2) { if (g_action2 == 1) c.succeed(); if (g_action2 == 2) c.fail(); }
#endif
  }
#ifdef VM_PLANS
  void planSucceeded(typename Base::FullControl&) { ++g_plan_succeeded[ID]; }       // overriding stops the default hand-over to the enclosing region
  void planFailed(typename Base::FullControl&)    { ++g_plan_failed[ID]; }
#endif
  void postUpdate(typename Base::FullControl&) { VASSERT(C03, g_entered[ID], "postUpdate is delivered only to an entered state"); seq_push(ID, PH_POST_UPDATE); trace_push(ID, Method::POST_UPDATE); OWN_UP(2); }
  void preReact(const Ev&, typename Base::EventControl& c)  { VASSERT(C03, g_entered[ID], "preReact is delivered only to an entered state"); seq_push(ID, PH_PRE_REACT); trace_push(ID, Method::PRE_REACT); OWN_DOWN(3); if (ID == g_consumer && g_consume_phase == PH_PRE_REACT) c.consumeEvent(); }
  void react(const Ev&, typename Base::EventControl& c)     { VASSERT(C03, g_entered[ID], "react is delivered only to an entered state");    seq_push(ID, PH_REACT); trace_push(ID, Method::REACT); OWN_DOWN(4); if (ID == g_consumer && g_consume_phase == PH_REACT) c.consumeEvent(); }
  void postReact(const Ev&, typename Base::EventControl& c) { VASSERT(C03, g_entered[ID], "postReact is delivered only to an entered state"); seq_push(ID, PH_POST_REACT); trace_push(ID, Method::POST_REACT); OWN_UP(5); if (ID == g_consumer && g_consume_phase == PH_POST_REACT) c.consumeEvent(); }
  void query(Ev&, typename Base::ConstControl& c) const     { VASSERT(C03, g_entered[ID], "query is delivered only to an entered state");    seq_push(ID, PH_QUERY); trace_push(ID, Method::QUERY); OWN_DOWN(6); if (ID == g_consumer && g_consume_phase == PH_QUERY) c.consumeQuery(); }
};
