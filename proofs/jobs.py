# Job table of /verif/check (DESIGN.md 8).  Generated programmatically; every job is one CBMC run.
JOBS = []
def job(**kw):
    kw.setdefault('tier', 'quick'); kw.setdefault('defs', {})
    JOBS.append(kw); return kw

# ------------------------------------------------------------------ C19 pool
TL_CARRIERS = [r'TaskListT<.*>::emplace', r'TaskListT<.*>::remove', r'TaskListT<.*>::clear\(\)', r'TaskListT<.*>::operator\[\]']
for cap, tier in ((1, 'quick'), (2, 'quick'), (3, 'quick'), (4, 'quick'), (5, 'thorough'), (8, 'thorough')):
    for pl in (False, True):
        defs = {'CAP': cap}
        if pl: defs['PAYLOAD_INT'] = None
        t = tier if not (pl and cap in (1, 3)) else 'thorough'
        for entry in ('proof_init', 'proof_emplace', 'proof_emplace_full', 'proof_remove', 'proof_clear', 'proof_access'):
            props = ['C19'] + (['C11'] if entry != 'proof_emplace_full' else [])
            job(id='C19.pool.cap%d%s.%s' % (cap, '.int' if pl else '', entry[6:]), tu='tier_a/tasklist.cpp', defs=defs, entry=entry,
                props=props, tier=t, unwind=max(cap + 2, 6), unwindset={'verif_havoc.0': 4096}, objbits=10, carriers=TL_CARRIERS,
                case_key='TaskListT<%s,%d>' % ('int' if pl else 'void', cap))

# ------------------------------------------------------------------ C19 arrays
DA_CARRIERS = [r'DynamicArrayT<.*>::emplace', r'DynamicArrayT<.*>::operator\+=', r'DynamicArrayT<.*>::operator\[\]', r'StaticArrayT<.*>::fill', r'StaticArrayT<.*>::empty', r'StaticArrayT<.*>::operator!=']
for cap, cap2, tier in ((1, 1, 'quick'), (2, 3, 'quick'), (4, 3, 'quick'), (5, 5, 'thorough'), (8, 4, 'thorough')):
    for pl in (False, True):
        defs = {'CAP': cap, 'CAP2': cap2}
        if pl: defs['PAYLOAD_INT'] = None
        t = tier if not (pl and cap == 1) else 'thorough'
        for entry in ('proof_da_init', 'proof_da_emplace_copy', 'proof_da_emplace_args', 'proof_da_bulk', 'proof_da_copy_clear', 'proof_da_iter', 'proof_sa'):
            if entry == 'proof_sa' and pl: continue
            job(id='C19.array.cap%d_%d%s.%s' % (cap, cap2, '.int' if pl else '', entry[6:]), tu='tier_a/arrays.cpp', defs=defs, entry=entry,
                props=['C19', 'C11'], tier=t, unwind=max(cap, cap2, 4) + 2, objbits=10, carriers=DA_CARRIERS,
                case_key='DynamicArrayT<TransitionT<%s>,%d>+=<%d>' % ('int' if pl else 'void', cap, cap2))

# ------------------------------------------------------------------ C20 generators
RNG_CARRIERS = {
 'proof_splitmix64': [r'SimpleRandomT<8u>::raw64'], 'proof_splitmix32': [r'SimpleRandomT<4u>::raw32'],
 'proof_nonzero64': [r'SimpleRandomT<8u>::uint64'], 'proof_nonzero32': [r'SimpleRandomT<4u>::uint32'],
 'proof_seed_float64': [r'BaseRandomT<8u>::BaseRandomT\(hfsm2::detail::SimpleRandomT', r'BaseRandomT<8u>::seed'], 'proof_seed_int64': [r'BaseRandomT<8u>::seed'],
 'proof_seed_float32': [r'BaseRandomT<4u>::BaseRandomT\(hfsm2::detail::SimpleRandomT', r'BaseRandomT<4u>::seed'], 'proof_seed_int32': [r'BaseRandomT<4u>::seed'],
 'proof_x256plus': [r'FloatRandomT<8u>::uint64'], 'proof_x256starstar': [r'IntRandomT<8u>::uint64'],
 'proof_x128plus': [r'FloatRandomT<4u>::uint32'], 'proof_x128starstar': [r'IntRandomT<4u>::uint32'],
 'proof_jump256plus': [r'FloatRandomT<8u>::jump'], 'proof_jump256ss': [r'IntRandomT<8u>::jump'],
 'proof_jump128plus': [r'FloatRandomT<4u>::jump'], 'proof_jump128ss': [r'IntRandomT<4u>::jump'],
 'proof_uniform': [r'hfsm2::detail::uniform\(unsigned int\)', r'hfsm2::detail::uniform\(unsigned long long\)'],
 'proof_unit_f64': [r'FloatRandomT<8u>::float32', r'FloatRandomT<8u>::float64', r'FloatRandomT<8u>::next'], 'proof_unit_i64': [r'IntRandomT<8u>::float64'],
 'proof_unit_f32': [r'FloatRandomT<4u>::float32', r'FloatRandomT<4u>::uint64'], 'proof_unit_i32': [r'IntRandomT<4u>::float64'],
 'proof_rngt': [r'FloatRandomT<8u>::next'],
}
RNG_SPEC = 'contracts/random.spec'
for entry, car in RNG_CARRIERS.items():
    jump = 'jump' in entry
    j = job(id='C20.' + entry[6:], tu='tier_a/random.cpp', entry=entry, props=['C20', 'C11'], unwind=(66 if '256' in entry else 34) if jump else 6,
        objbits=8, carriers=car, timeout=150, case_key=entry[6:])
    if 'splitmix' in entry or 'x256ss' in entry or 'x128ss' in entry or 'starstar' in entry: j.update(backend='portfolio', portfolio=['cvc5', 'z3'])   # equal multiplier chains: decided at term level
    if jump: j.update(backend='portfolio', portfolio=['z3', 'cvc5'])          # XOR-network equivalence: term-level rewriting decides it (12 s); SAT does not finish
    if 'nonzero' in entry:
        j.update(unwind=3, backend='portfolio', portfolio=['cvc5', 'z3'])     # unwinding assertion at 3 = "at most two iterations": termination for every state
    if 'seed' in entry or entry == 'proof_rngt':
        # modular: the seeding source is replaced by its contract (enforced in C20.dfcc.nonzero*)
        j.update(mode='dfcc', objbits=10, backend='portfolio', portfolio=['z3', 'cvc5'], dfcc={'contracts': RNG_SPEC, 'replace': ['nonzero64' if '64' in entry or entry == 'proof_rngt' else 'nonzero32']})
job(id='C20.spec_is_reference', tu='tier_a/random.cpp', entry='proof_spec_is_reference', props=['C20'], unwind=3, objbits=8, backend='portfolio', portfolio=['cvc5', 'z3'], timeout=300,
    carriers=[], case_key='contract spec = reference')
for alias, entry, repl, kw in (('raw64', 'dfcc_raw64', [], {}), ('raw32', 'dfcc_raw32', [], {}),
                               ('nonzero64', 'dfcc_nonzero64', ['raw64'], {'unwind': 3}),
                               ('nonzero32', 'dfcc_nonzero32', ['raw32'], {'unwind': 3})):
    kw.setdefault('backend', 'portfolio'); kw.setdefault('portfolio', ['cvc5', 'z3'])
    job(id='C20.dfcc.' + alias, tu='tier_a/random.cpp', entry=entry, props=['C20', 'C11'], objbits=10, timeout=300, mode='dfcc',
        dfcc={'contracts': RNG_SPEC, 'enforce': [alias], 'replace': repl}, carriers=[r'SimpleRandomT<[48]u>::(raw|uint)(32|64)'],
        case_key='contract ' + alias, **(dict(kw, unwind=kw.get('unwind', 6))))
job(id='C20.dfcc.uniform', tu='tier_a/random.cpp', entry='dfcc_uniform', props=['C20', 'C11'], objbits=8, timeout=300, mode='dfcc', unwind=3,
    dfcc={'contracts': RNG_SPEC, 'enforce': ['uniform32', 'uniform64']}, carriers=[r'hfsm2::detail::uniform'], case_key='contract uniform')

# ------------------------------------------------------------------ C18 bit arrays and streams
BA_CARRIERS = [r'BitArrayT<\d+u>::get<', r'BitArrayT<\d+u>::set<', r'BitArrayT<\d+u>::clear<', r'BitArrayT<\d+u>::empty', r'BitArrayT<\d+u>::operator&=',
               r'BitArrayT<\d+u>::operator!=', r'BitArrayT<\d+u>::Bits::operator bool', r'BitArrayT<\d+u>::CBits::operator bool', r'BitArrayT<\d+u>::bits\(', r'BitArrayT<\d+u>::Bits::clear\(\)']
for n, tier in ((1, 'quick'), (8, 'quick'), (9, 'quick'), (17, 'quick'), (32, 'quick'), (2, 'thorough'), (7, 'thorough'), (15, 'thorough'), (16, 'thorough'),
                (31, 'thorough'), (33, 'thorough'), (64, 'thorough'), (255, 'thorough'), (256, 'thorough'), (257, 'thorough')):
    for entry in ('proof_ba_index', 'proof_ba_static', 'proof_ba_whole', 'proof_bits_view', 'proof_bits_static'):
        units = (n + 7) // 8
        job(id='C18.bitarray.n%d.%s' % (n, entry[6:]), tu='tier_a/bits.cpp', defs={'VP_N': n}, entry=entry, props=['C18', 'C11'], tier=tier,
            unwind=8 * units + 2, objbits=8, carriers=BA_CARRIERS if entry != 'proof_ba_static' else [], timeout=600, case_key='BitArrayT<%d>' % n)
ST_CARRIERS = [r'BitWriteStreamT<.*>::write<', r'BitReadStreamT<.*>::read<', r'StreamBufferT<.*>::operator==', r'StreamBufferT<.*>::operator!=']
def stream_jobs(scap, w1, w2, tier):
    defs = {'VP_SCAP': scap, 'VP_W1': w1, 'VP_W2': w2, 'VP_N': 9}
    for entry in ('proof_sb_compare', 'proof_write_w1', 'proof_write_w2', 'proof_read_w1', 'proof_read_w2', 'proof_roundtrip'):
        job(id='C18.stream.c%d.w%d_%d.%s' % (scap, w1, w2, entry[6:]), tu='tier_a/bits.cpp', defs=defs, entry=entry, props=['C18', 'C11'], tier=tier,
            unwind=8 * ((scap + 7) // 8) + 2, objbits=8, carriers=ST_CARRIERS, timeout=600, case_key='Stream<%d> widths %d,%d' % (scap, w1, w2))
stream_jobs(31, 5, 12, 'quick'); stream_jobs(70, 1, 32, 'quick'); stream_jobs(64, 8, 16, 'quick'); stream_jobs(9, 3, 6, 'quick')
for i, (a, b) in enumerate(((2, 31), (4, 30), (7, 29), (9, 28), (10, 27), (11, 26), (13, 25), (14, 24), (15, 23), (17, 22), (18, 21), (19, 20), (32, 32))):
    stream_jobs(70, a, b, 'thorough')
stream_jobs(8, 1, 7, 'thorough'); stream_jobs(1, 1, 1, 'thorough') if False else None

# ------------------------------------------------------------------ Tier B: RegistryT over symbolic structure tables
REG_CARRIERS = {
 'proof_activity_queries': (['C13', 'C01', 'C11'], [r'RegistryT<.*>::isActive\(unsigned short\) const', r'RegistryT<.*>::activeSubState', r'RegistryT<.*>::isResumable', r'RegistryT<.*>::forkParent']),
 'proof_active_sub_other': (['C13', 'C11'], [r'RegistryT<.*>::activeSubState']),
 'proof_pending_none':     (['C13'], [r'RegistryT<.*>::isPendingEnter', r'RegistryT<.*>::isPendingExit', r'RegistryT<.*>::isPendingChange']),
 'proof_pending_relation': (['C13', 'C11'], [r'RegistryT<.*>::isPendingEnter', r'RegistryT<.*>::isPendingExit', r'RegistryT<.*>::isPendingChange']),
 'proof_request_immediate': (['C02', 'C11'], [r'RegistryT<.*>::requestImmediate']),
 'proof_request_scheduled': (['C02', 'C13', 'C11'], [r'RegistryT<.*>::requestScheduled']),
 'proof_backup_restore':   (['C04', 'C11'], [r'RegistryT<.*>::backup', r'RegistryT<.*>::restore', r'RegistryT<.*>::operator!=']),
 'proof_clear':            (['C01', 'C11'], [r'RegistryT<.*>::clearRequests', r'RegistryT<.*>::clear\(\)', r'RegistryT<.*>::empty']),
}
for variant, defs in (('ortho', {}), ('compo', {'NO_ORTHO': None})):
    for entry, (props, car) in REG_CARRIERS.items():
        job(id='B.registry.%s.%s' % (variant, entry[6:]), tu='tier_b/registry.cpp', defs=defs, entry=entry, props=props, unwind=12,
            unwindset={'verif_havoc.0': 4096}, objbits=10, carriers=car, timeout=600,
            case_key='RegistryT %s, symbolic tables (%s)' % ('general' if variant == 'ortho' else 'ORTHO_COUNT==0', '10 states/3 compo/1 ortho' if variant == 'ortho' else '8 states/3 compo'))
