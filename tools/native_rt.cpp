// Native runtime for the proof TUs (DESIGN.md 2.3 and 2.7).
//   VERIF_MODE=replay  : nd_* read the counterexample's input list (VERIF_INPUTS); a failed assertion -> exit 1
//   VERIF_MODE=drive   : nd_* are a seeded PRNG (VERIF_SEED); verif_observe folds into a hash printed at exit
#include <stdio.h>
#include <stdlib.h>
#include <string.h>
#include <stdint.h>
static FILE* in; static int drive; static uint64_t rng = 0x9E3779B97F4A7C15ull, hash = 1469598103934665603ull, nobs;
static uint64_t prng() { rng ^= rng << 13; rng ^= rng >> 7; rng ^= rng << 17; return rng; }
static void init() {
  static int done; if (done) return; done = 1;
  const char* m = getenv("VERIF_MODE"); drive = m && !strcmp(m, "drive");
  if (drive) { const char* s = getenv("VERIF_SEED"); rng ^= (s ? strtoull(s, 0, 10) : 0) * 0xD1342543DE82EF95ull + 1; if (!rng) rng = 1; for (int i = 0; i < 8; ++i) prng(); }
}
static uint64_t next_raw(const char* want) {
  init();
  if (drive) return prng() >> 11;
  char tag[32]; unsigned long long v;
  if (!in) in = fopen(getenv("VERIF_INPUTS"), "r");
  if (!in || fscanf(in, "%31s %llu", tag, &v) != 2) { printf("replay: input list exhausted\n"); exit(3); }
  if (strcmp(tag, want)) { printf("replay: input kind mismatch (%s vs %s)\n", tag, want); exit(3); }
  return v;
}
extern "C" {
bool nd_bool() { return next_raw("bool") & 1; }
uint8_t nd_u8() { return (uint8_t) next_raw("u8"); }
uint16_t nd_u16() { return (uint16_t) next_raw("u16"); }
uint32_t nd_u32() { return (uint32_t) next_raw("u32"); }
uint64_t nd_u64() { init(); return drive ? prng() : next_raw("u64"); }
int8_t nd_i8() { return (int8_t) next_raw("i8"); }
int32_t nd_i32() { return (int32_t) next_raw("i32"); }
float nd_f32() { uint32_t b = (uint32_t) next_raw("f32"); float f; memcpy(&f, &b, 4); return f; }
double nd_f64() { init(); uint64_t b = drive ? prng() : next_raw("f64"); double f; memcpy(&f, &b, 8); return f; }
void verif_havoc(void* p, unsigned long n) { for (unsigned long i = 0; i < n; ++i) ((unsigned char*)p)[i] = (unsigned char) next_raw("byte"); }
void verif_observe(uint64_t v) { hash = (hash ^ v) * 1099511628211ull; ++nobs; }
void __CPROVER_assume(bool c) { if (!c) { if (drive) { verif_observe(0xA55); return; } printf("replay: assumption not satisfied (infeasible)\n"); exit(3); } }
void __CPROVER_assert(bool c, const char* m) {
  if (drive) { verif_observe(c); return; }
  if (!c) { if (!strncmp(m, "CANARY", 6)) return; printf("REPLAY-CONFIRMED: %s\n", m); fflush(stdout); exit(1); }
}
void hfsm2_verif_break(void) { __CPROVER_assert(false, "C11: HFSM2_ASSERT/HFSM2_BREAK reached"); }
void VERIF_ENTRY(void);
#ifndef VERIF_KEYS
#define VERIF_KEYS_0 0
#define VERIF_KEYS_1 0
#define VERIF_KEYS_2 0
#define VERIF_KEYS_3 0
#define VERIF_KEYS_4 0
#define VERIF_KEYS_5 0
#define VERIF_KEYS_6 0
#define VERIF_KEYS_7 0
#endif
extern const int ck0 = VERIF_KEYS_0, ck1 = VERIF_KEYS_1, ck2 = VERIF_KEYS_2, ck3 = VERIF_KEYS_3, ck4 = VERIF_KEYS_4, ck5 = VERIF_KEYS_5, ck6 = VERIF_KEYS_6, ck7 = VERIF_KEYS_7;
}
int main() {
  init();
  VERIF_ENTRY();
  if (drive) printf("drive: observations=%llu hash=%016llx\n", (unsigned long long) nobs, (unsigned long long) hash);
  else printf("replay: no assertion failed\n");
  return 0;
}
