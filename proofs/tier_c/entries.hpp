// extern "C" entry points = case keys (DESIGN 4.3).  The key is passed as a CONSTANT so that CBMC folds it.
#pragma once
extern "C" void proof_init()       { body_init(); }
extern "C" void proof_exit_enter() { body_exit_enter(); }
extern "C" void proof_reset()      { body_reset(); }
extern "C" void proof_cfg_count()  { VASSERT(C01, cfg_count_rec(0) == VM_NCFG, "the case split over active configurations is exhaustive: the declaration has exactly VM_NCFG of them"); }
#define E_IMM(K, D) extern "C" void step_imm_k##K##_d##D() { body_immediate(K, D); }
#define E_IMM_ALLK(D) E_IMM(0, D) E_IMM(1, D) E_IMM(2, D)
#define E_UPD(CF, IS, K, D) extern "C" void step_upd_c##CF##_i##IS##_k##K##_d##D() { body_update(CF, IS, K, D); }
#define E_UPD_NONE(CF) extern "C" void step_upd_c##CF##_none() { body_update(CF, -1, 0, 0); }
#define E_Q2(K1, D1, K2, D2) extern "C" void step_q2_k##K1##_d##D1##_k##K2##_d##D2() { body_queued2(K1, D1, K2, D2); }
// destinations 1..VM_NS-1 (expanded by hand per machine size)
#if VM_NS == 6
E_IMM_ALLK(1) E_IMM_ALLK(2) E_IMM_ALLK(3) E_IMM_ALLK(4) E_IMM_ALLK(5)
#endif
#include "tier_c/entries_gen.hpp"
