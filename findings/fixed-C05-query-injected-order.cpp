#include <hfsm2/machine.hpp>
#include <cstdio>
#include <string>
using M = hfsm2::Machine;
struct A; struct B;
using FSM = M::PeerRoot<A, B>;
static std::string g_log;
struct Ev {};
struct Tracked : FSM::State {
  void react(const Ev&, EventControl&)      { g_log += "inj.react "; }
  void query(Ev&, ConstControl&) const      { g_log += "inj.query "; }
};
struct A : FSM::StateT<Tracked> {
  void react(const Ev&, EventControl&)      { g_log += "own.react "; }
  void query(Ev&, ConstControl&) const      { g_log += "own.query "; }
};
struct B : FSM::State {};
int main(){
  FSM::Instance f; Ev e;
  f.react(e); const FSM::Instance& cf = f; cf.query(e);
  printf("%s\n", g_log.c_str());
  return g_log == "inj.react own.react inj.query own.query " ? 0 : 1;
}
