#!/usr/bin/env python3
"""setup_cmd: verifies that the tool chain the checks rely on is present (builds nothing that depends on /repo)"""
import subprocess, sys, shutil
need = ['clang++-14', 'opt-14', 'goto-cc', 'goto-instrument', 'cbmc', 'gcc', 'g++', 'c++filt', 'cvc5', 'z3', 'jq']
bad = [t for t in need if shutil.which(t) is None]
if bad: print('missing tools:', bad); sys.exit(1)
v = subprocess.run(['cbmc', '--version'], stdout=subprocess.PIPE).stdout.decode().strip()
print('tool chain ok; cbmc', v)
