#define HFSM2_DISABLE_TYPEINDEX
#define HFSM2_ENABLE_PLANS
#include <stdint.h>
#include <string.h>
#include <new>
#define private public
#define protected public
#define class struct
#include <hfsm2/machine.hpp>
#undef private
#undef protected
#undef class
extern "C" void __CPROVER_assume(bool);
extern "C" void __CPROVER_assert(bool, const char*);
extern "C" bool nondet_bool(); extern "C" unsigned char nondet_uchar();
using Cfg = hfsm2::Config::ManualActivation;
using M = hfsm2::MachineT<Cfg>;
#define S(s) struct s
using FSM = M::PeerRoot< S(A), M::Composite<S(B), S(B1), S(B2), S(B3)> >;
static int planSucceeded, planFailed;
struct A  : FSM::State {};
struct B  : FSM::State { void planSucceeded(FullControl&) { ++::planSucceeded; } void planFailed(FullControl&) { ++::planFailed; } };
template <int N> struct Leaf : FSM::State {
  void update(FullControl& c) { if (nondet_bool()) c.succeed(); else if (nondet_bool()) c.fail(); }
};
struct B1 : Leaf<1> {}; struct B2 : Leaf<2> {}; struct B3 : Leaf<3> {};
extern "C" void step_plan() {
  FSM::Instance fsm;
  fsm.enter();
  fsm.immediateChangeTo<B1>();
  auto plan = fsm.plan<B>();
  plan.change<B1, B2>();
  plan.restart<B2, B3>();
  const auto before = fsm._core.planData.tasks.count();
  fsm.update();
  const bool inB2 = fsm.isActive<B2>(), inB1 = fsm.isActive<B1>();
  __CPROVER_assert(inB1 != inB2, "stays in B1 or moves to B2");
  __CPROVER_assert(!inB2 || fsm._core.planData.tasks.count() == before - 1, "C06 executed task removed exactly once");
  __CPROVER_assert(!inB1 || fsm._core.planData.tasks.count() == before || planFailed == 1, "C06 no task executed without success");
  __CPROVER_assert(fsm._core.planData.tasksSuccesses.empty() && fsm._core.planData.tasksFailures.empty(), "C06 marks do not survive the step");
  __CPROVER_assert(planSucceeded == 0, "plan not finished yet");
}
