/* bodies of the proof-TU externals under CBMC (DESIGN.md 2.7) */
#include <stdint.h>
_Bool nondet_bool(void); uint8_t nondet_u8(void); uint16_t nondet_u16(void); uint32_t nondet_u32(void); uint64_t nondet_u64(void);
int8_t nondet_i8(void); int32_t nondet_i32(void); float nondet_f32(void); double nondet_f64(void);
_Bool    nd_bool(void){ _Bool v = nondet_bool(); __CPROVER_input("bool", v); return v; }
uint8_t  nd_u8(void)  { uint8_t v = nondet_u8();   __CPROVER_input("u8", v);  return v; }
uint16_t nd_u16(void) { uint16_t v = nondet_u16(); __CPROVER_input("u16", v); return v; }
uint32_t nd_u32(void) { uint32_t v = nondet_u32(); __CPROVER_input("u32", v); return v; }
uint64_t nd_u64(void) { uint64_t v = nondet_u64(); __CPROVER_input("u64", v); return v; }
int8_t   nd_i8(void)  { int8_t v = nondet_i8();    __CPROVER_input("i8", v);  return v; }
int32_t  nd_i32(void) { int32_t v = nondet_i32();  __CPROVER_input("i32", v); return v; }
float    nd_f32(void) { float v = nondet_f32();    __CPROVER_input("f32", v); return v; }
double   nd_f64(void) { double v = nondet_f64();   __CPROVER_input("f64", v); return v; }
void verif_havoc(void* p, unsigned long n) {
  __CPROVER_havoc_slice(p, n);
#ifdef VERIF_TRACE_HAVOC
  for (unsigned long i = 0; i < n; ++i) { unsigned char b = ((unsigned char*)p)[i]; __CPROVER_input("byte", b); }
#endif
}
void verif_observe(uint64_t v) { (void)v; }
void hfsm2_verif_break(void) { __CPROVER_assert(0, "C11: HFSM2_ASSERT/HFSM2_BREAK reached"); }
