#define HFSM2_DISABLE_TYPEINDEX
#define HFSM2_ENABLE_UTILITY_THEORY
#include <stdint.h>
#include <string.h>
#include <new>
#define private public
#define protected public
#define class struct
#include <hfsm2/machine.hpp>
#undef private
#undef protected
#undef class
extern "C" void __CPROVER_assume(bool);
extern "C" void __CPROVER_assert(bool, const char*);
using M = hfsm2::Machine;                  // default config: automatic activation, built-in RNGT<float>
#define S(s) struct s
using FSM = M::RandomPeerRoot<S(A), S(B), S(C)>;
struct A : FSM::State { Utility utility(const Control&) { return 1.0f; } };
struct B : FSM::State { Utility utility(const Control&) { return 1.0f; } };
struct C : FSM::State { Utility utility(const Control&) { return 1.0f; } };
union Slot { FSM::Instance fsm; Slot() {} ~Slot() {} };
extern "C" void proof_determinism() {
  Slot s1, s2;                              // two storages with independent, arbitrary prior contents
  FSM::Instance* a = new (&s1.fsm) FSM::Instance();
  FSM::Instance* b = new (&s2.fsm) FSM::Instance();
  __CPROVER_assert(a->_core.registry.compoActive[0] < 3, "C01 first activation selects a sub-state");
  __CPROVER_assert(a->_core.registry.compoActive[0] == b->_core.registry.compoActive[0], "C10 identically driven instances agree");
}
