#!/bin/sh
# run a check against a seeded change: apply to /repo, run, undo.   usage: try_seed.sh <patch.diff> <property> [extra check args]
P=$1; PROP=$2; shift 2
git -C /repo apply $P || exit 2
cd /verif && timeout 3000 ./check $PROP "$@" 2>&1 | grep -v "^obligation failed" | cut -c1-220 | tail -8
git -C /repo checkout -- .
git -C /repo status --short | grep -v _build
