#include <stddef.h>
void verif_havoc(void* p, unsigned long n) { __CPROVER_havoc_slice(p, n); }
