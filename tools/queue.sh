#!/bin/sh
# run the commands given on stdin one after the other (each may use all cores); several invocations serialise on a lock; log: /var/tmp/runs/queue.log
exec 9>/var/tmp/runs/queue.lock
flock 9
while IFS= read -r cmd; do
  [ -z "$cmd" ] && continue
  echo "=== $(date +%H:%M:%S) $cmd" >> /var/tmp/runs/queue.log
  sh -c "$cmd" >> /var/tmp/runs/queue.log 2>&1
  echo "=== rc=$? $(date +%H:%M:%S)" >> /var/tmp/runs/queue.log
done
