#!/usr/bin/env python3
"""
ll2c.py -- mechanical LLVM-IR -> C printer used by /verif/check (DESIGN.md section 2).

Mechanically lowers the textual LLVM IR that clang++ -O0 produces for a C++ translation
unit (which includes the *real* /repo/include/hfsm2/machine.hpp) into plain C that
goto-cc / cbmc accept.  Nothing is hand-modelled: every function body in the output is an
instruction-by-instruction rendering of what the production compiler front end generated
from the repository's source.

Aborts (exit 2) on any IR construct it does not know -- it never silently drops one.
"""
import re, sys, collections

class Unsupported(Exception):
    pass

# "never allocates" (C11) is checked structurally: any allocator call in the lowered closure aborts.
FORBIDDEN_CALLS = {}
for _n in ('_Znwm', '_Znam', '_ZnwmRKSt9nothrow_t', '_ZnamRKSt9nothrow_t', '_ZdlPv', '_ZdaPv', '_ZdlPvm', '_ZdaPvm',
           'malloc', 'calloc', 'realloc', 'free', 'aligned_alloc', 'posix_memalign', 'alloca', 'strdup'):
    FORBIDDEN_CALLS[_n] = 'dynamic allocation'
for _n in ('memcmp', 'bcmp'):
    FORBIDDEN_CALLS[_n] = 'raw memory comparison would observe padding that typed copies do not preserve'
# externals the proof TUs may call (bodies supplied by tools/support_cbmc.c or by CBMC itself)
ALLOWED_EXTERNAL = r'^(nondet_|verif_|nd_|__CPROVER_|ll2c_|hfsm2_verif_break$)'
ALLOWED_EXTERNAL_GLOBALS = r'^ck[0-7]$'

# ----------------------------------------------------------------------------- tokenizer

TOK = re.compile(r'''
    \s+
  | ;[^\n]*
  | (?P<str>c"(?:[^"\\]|\\[0-9A-Fa-f]{2}|\\\\)*")
  | (?P<id>[%@](?:"[^"]*"|[-a-zA-Z$._0-9]+))
  | (?P<meta>![-a-zA-Z$._0-9]*(?:\([^)]*\))?)
  | (?P<attr>\#\d+)
  | (?P<num>-?\d+\.\d+(?:e[+-]?\d+)?|0x[KLMHR]?[0-9A-Fa-f]+|-?\d+)
  | (?P<word>[a-zA-Z_][a-zA-Z_0-9.]*)
  | (?P<dots>\.\.\.)
  | (?P<punct>[\[\]{}()<>,=*:])
  | (?P<q>"[^"]*")
''', re.X)

def tokenize(s):
    out = []
    pos = 0
    n = len(s)
    while pos < n:
        m = TOK.match(s, pos)
        if not m:
            raise Unsupported('cannot tokenize: ' + s[pos:pos+40])
        pos = m.end()
        k = m.lastgroup
        if k is None:
            continue
        out.append((k, m.group(k)))
    return out

class Toks:
    def __init__(self, toks, line=''):
        self.t = toks; self.i = 0; self.line = line
    def peek(self, k=0):
        return self.t[self.i+k] if self.i+k < len(self.t) else (None, None)
    def next(self):
        x = self.t[self.i]; self.i += 1; return x
    def accept(self, val):
        if self.peek()[1] == val:
            self.i += 1; return True
        return False
    def expect(self, val):
        if not self.accept(val):
            raise Unsupported('expected %r got %r in: %s' % (val, self.peek(), self.line))
    def eof(self):
        return self.i >= len(self.t)

# ----------------------------------------------------------------------------- types

class T:  # type node
    def __init__(self, kind, **kw):
        self.kind = kind; self.__dict__.update(kw)
    def key(self):
        k = self.kind
        if k == 'int': return 'i%d' % self.bits
        if k in ('float', 'double', 'void', 'label', 'metadata'): return k
        if k == 'ptr': return self.to.key() + '*'
        if k == 'named': return '%' + self.name
        if k == 'array': return '[%d x %s]' % (self.n, self.elem.key())
        if k == 'struct': return ('<{' if self.packed else '{') + ','.join(e.key() for e in self.elems) + '}'
        if k == 'func': return self.ret.key() + '(' + ','.join(p.key() for p in self.params) + (',...' if self.vararg else '') + ')'
        raise Unsupported(k)
    def __repr__(self): return self.key()

PARAM_ATTRS = {'noundef','nonnull','zeroext','signext','noalias','nocapture','readonly','writeonly','immarg','returned','readnone','inreg','nofree','nest','swiftself'}

def parse_type(tk):
    k, v = tk.next()
    if v == 'void': t = T('void')
    elif k == 'word' and re.fullmatch(r'i\d+', v): t = T('int', bits=int(v[1:]))
    elif v == 'float': t = T('float')
    elif v == 'double': t = T('double')
    elif v == 'label': t = T('label')
    elif v == 'metadata': t = T('metadata')
    elif k == 'id' and v[0] == '%':
        t = T('named', name=v[1:].strip('"'))
    elif v == '[':
        n = int(tk.next()[1]); tk.expect('x'); e = parse_type(tk); tk.expect(']')
        t = T('array', n=n, elem=e)
    elif v == '{' or (v == '<' and tk.peek()[1] == '{'):
        packed = False
        if v == '<': packed = True; tk.expect('{')
        elems = []
        if not tk.accept('}'):
            while True:
                elems.append(parse_type(tk))
                if tk.accept('}'): break
                tk.expect(',')
        if packed: tk.expect('>')
        t = T('struct', elems=elems, packed=packed)
    elif v == 'opaque':
        t = T('opaque')
    else:
        raise Unsupported('type token %r in %s' % (v, tk.line))
    while True:
        if tk.accept('*'):
            t = T('ptr', to=t)
        elif tk.peek()[1] == '(' :
            # function type
            tk.next()
            params = []; vararg = False
            if not tk.accept(')'):
                while True:
                    if tk.peek()[0] == 'dots':
                        tk.next(); vararg = True
                    else:
                        params.append(parse_type(tk))
                        skip_param_attrs(tk)
                    if tk.accept(')'): break
                    tk.expect(',')
            t = T('func', ret=t, params=params, vararg=vararg)
        else:
            break
    return t

def skip_param_attrs(tk):
    flags = {}
    while True:
        k, v = tk.peek()
        if k == 'word' and v in PARAM_ATTRS:
            tk.next()
        elif k == 'word' and v in ('align', 'dereferenceable', 'dereferenceable_or_null'):
            tk.next()
            if tk.accept('('):
                tk.next(); tk.expect(')')
            else:
                tk.next()
        elif k == 'word' and v in ('sret', 'byval'):
            tk.next()
            ty = None
            if tk.accept('('):
                ty = parse_type(tk); tk.expect(')')
            if v == 'byval':
                flags['byval'] = ty
        elif k == 'word' and v in ('byref', 'preallocated', 'inalloca', 'elementtype'):
            raise Unsupported(v + ' parameter attribute')
        else:
            return flags

# ----------------------------------------------------------------------------- module

class Module:
    def __init__(self):
        self.named = collections.OrderedDict()   # name -> T (struct/opaque)
        self.globals = collections.OrderedDict() # name -> dict
        self.funcs = collections.OrderedDict()   # name -> Func
        self.decls = collections.OrderedDict()

class Func:
    pass

def cname(n):
    """LLVM identifier (without sigil) -> C identifier"""
    n = n.strip('"')
    s = re.sub(r'[^A-Za-z0-9_]', lambda m: '_%02x' % ord(m.group(0)) if m.group(0) not in '.:<>, ' else '_', n)
    if re.match(r'\d', s): s = 't' + s
    return s

class Emitter:
    def __init__(self, mod):
        self.m = mod
        self.tnames = {}       # type key -> C type name
        self.tdefs = []        # emitted typedef text in dependency order
        self.tforward = []
        self.named_c = {}
        self.undef_fns = collections.OrderedDict()
        for i, name in enumerate(mod.named):
            self.named_c[name] = 'S_' + cname(name)
    # ---- type naming
    def ct(self, t):
        k = t.kind
        if k == 'int':
            b = t.bits
            if b == 1: return '_Bool'
            if b == 8: return 'u8'
            if b in (16, 32, 64): return 'uint%d_t' % b
            if 8 < b < 64 and b % 8 == 0: return 'uint%d_t' % (32 if b < 32 else 64)   # odd width: container, kept masked
            raise Unsupported('int width %d' % b)
        if k == 'float': return 'float'
        if k == 'double': return 'double'
        if k == 'void': return 'void'
        if k == 'ptr':
            if t.to.kind == 'func':
                return self.fnptr(t.to)
            if t.to.kind == 'void' or (t.to.kind == 'int' and t.to.bits == 8 and False):
                return 'void*'
            return self.ct(t.to) + '*'
        if k == 'named':
            return 'struct ' + self.named_c[t.name]
        key = t.key()
        if key in self.tnames: return self.tnames[key]
        if k == 'array':
            ec = self.ct(t.elem)
            nm = 'A%d_%d' % (t.n, len(self.tnames))
            self.tnames[key] = nm
            self.tdefs.append('typedef struct { %s a[%d]; } %s;' % (ec, max(t.n, 1), nm))
            return nm
        if k == 'struct':
            nm = 'L%d' % len(self.tnames)
            self.tnames[key] = nm
            fs = ' '.join('%s f%d;' % (self.ct(e), i) for i, e in enumerate(t.elems))
            self.tdefs.append('typedef struct %s{ %s } %s;' % ('__attribute__((packed)) ' if t.packed else '', fs, nm))
            return nm
        if k == 'func':
            raise Unsupported('bare function type as value')
        raise Unsupported('ctype ' + k)
    def fnptr(self, ft):
        key = 'fp:' + ft.key()
        if key in self.tnames: return self.tnames[key]
        nm = 'FP%d' % len(self.tnames)
        self.tnames[key] = nm
        ps = ', '.join(self.ct(p) for p in ft.params) or 'void'
        self.tdefs.append('typedef %s (*%s)(%s);' % (self.ct(ft.ret), nm, ps))
        return nm

# ----------------------------------------------------------------------------- values

INT_RE = re.compile(r'-?\d+$')

class V:
    """a parsed operand: C expression text + type"""
    def __init__(self, c, t): self.c = c; self.t = t

def sx(bits):  # signed C type
    return 'int%d_t' % bits

class FuncEmitter:
    def __init__(self, em, mod, name, ret, params, body_lines, attrs_line):
        self.em = em; self.mod = mod; self.name = name; self.ret = ret; self.params = params
        self.lines = body_lines
        self.locals = collections.OrderedDict()  # cname -> ctype
        self.vtypes = {}  # llvm local name -> T
        self.out = []
        self.used_names = {}
    def lname(self, n):
        n = n.strip('"')
        if n not in self.used_names:
            c = 'v_' + cname(n)
            self.used_names[n] = c
        return self.used_names[n]

    # --- operand parsing
    def value(self, tk, t):
        k, v = tk.next()
        if k == 'id':
            if v[0] == '%':
                n = v[1:]
                return V(self.lname(n), t)
            else:
                g = v[1:].strip('"')
                return V('(&%s)' % ('G_' + cname(g)) if g in self.mod.globals else self.gfunc(g), t)
        if k == 'num':
            return V(self.numlit(v, t), t)
        if v in ('true', 'false'):
            return V('1' if v == 'true' else '0', t)
        if v == 'null':
            return V('((%s)0)' % self.em.ct(t), t)
        if v in ('undef', 'poison'):
            # undef scalars: any value.  Rendered as 0 would hide nondeterminism; use nondet.
            return V(self.undef(t), t)
        if v == 'zeroinitializer':
            return V('((%s){0})' % self.em.ct(t), t)
        if v in ('getelementptr', 'bitcast', 'inttoptr', 'ptrtoint', 'trunc', 'zext', 'sext', 'add', 'sub'):
            return self.constexpr(v, tk, t)
        raise Unsupported('operand %r in %s' % (v, tk.line))
    def gfunc(self, g):
        return cname(g)
    def undef(self, t):
        # an undef/poison operand is *any* value: a fresh nondeterministic value per use under CBMC
        # (a body-less function), 0 in the native build used for translation validation / replay
        ct = self.em.ct(t)
        fn = 'll2c_undef_' + re.sub(r'[^A-Za-z0-9]', '_', ct.replace('*', 'P'))
        self.em.undef_fns[fn] = ct
        return '%s()' % fn
    def numlit(self, v, t):
        if t.kind == 'int':
            n = int(v)
            b = t.bits
            if n < 0: n += (1 << b)
            if b == 1: return str(n)
            cb = b if b in (8, 16, 32, 64) else (32 if b < 32 else 64)
            suf = 'ULL' if cb == 64 else 'U'
            return '((uint%d_t)%d%s)' % (cb, n, suf)
        if t.kind in ('float', 'double'):
            if v.startswith('0x'):
                bits = int(v[2:], 16)
                import struct
                d = struct.unpack('<d', struct.pack('<Q', bits))[0]
                if d != d: return '(0.0/0.0)'
                if d in (float('inf'), float('-inf')): return '(%s1.0/0.0)' % ('-' if d < 0 else '')
                lit = d.hex()
            else:
                lit = float(v).hex()
            return '((%s)%s)' % (self.em.ct(t), lit)
        raise Unsupported('numeric literal of type %s' % t)
    def constexpr(self, op, tk, t):
        if op == 'getelementptr':
            tk.accept('inbounds')
            tk.expect('(')
            bt = parse_type(tk); tk.expect(',')
            pt = parse_type(tk); base = self.value(tk, pt)
            idx = []
            while tk.accept(','):
                tk.accept('inrange')
                it = parse_type(tk); idx.append(self.value(tk, it))
            tk.expect(')')
            c, rt = self.gep(base, bt, idx)
            return V(c, rt)
        if op in ('bitcast', 'inttoptr', 'ptrtoint'):
            tk.expect('(')
            st = parse_type(tk); sv = self.value(tk, st); tk.expect('to'); dt = parse_type(tk); tk.expect(')')
            return V('((%s)%s)' % (self.em.ct(dt), sv.c), dt)
        raise Unsupported('constexpr ' + op)

    def typed_value(self, tk):
        t = parse_type(tk)
        fl = skip_param_attrs(tk)
        v = self.value(tk, t)
        v.byval = fl.get('byval') if fl else None
        return v

    # --- GEP
    def find_at(self, ty, off, want):
        """accessor suffix of the sub-object of `ty` at byte offset `off` whose layout equals `want`"""
        rt = self.resolve(ty)
        if off == 0 and self.same_layout(ty, want):
            return ''
        if rt.kind == 'struct':
            offs = self.offsets(rt)
            for i in range(len(rt.elems) - 1, -1, -1):
                if offs[i] <= off and (off < offs[i] + max(self.sizeof(rt.elems[i]), 1)):
                    r = self.find_at(rt.elems[i], off - offs[i], want)
                    return None if r is None else '.f%d' % i + r
            return None
        if rt.kind == 'array':
            es = self.sizeof(rt.elem)
            if es == 0: return None
            i = off // es
            if i >= rt.n: return None
            r = self.find_at(rt.elem, off - i * es, want)
            return None if r is None else '.a[%d]' % i + r
        return None
    def same_layout(self, a, b):
        a = self.resolve(a); b = self.resolve(b)
        if a.kind != b.kind: return False
        if a.kind == 'int': return a.bits == b.bits
        if a.kind in ('float', 'double'): return True
        if a.kind == 'ptr': return True
        if a.kind == 'array': return a.n == b.n and self.same_layout(a.elem, b.elem)
        if a.kind == 'struct':
            return a.packed == b.packed and len(a.elems) == len(b.elems) and all(self.same_layout(x, y) for x, y in zip(a.elems, b.elems))
        return False
    def gep(self, base, bt, idx):
        """returns (C expr, result type)"""
        org = getattr(self, 'origin', {}).get(base.c)
        if org and org[1].kind == 'ptr' and org[1].to.key() != bt.key() and self.resolve(bt).kind == 'struct' \
                and self.resolve(org[1].to).kind in ('struct', 'array') and self.is_zero(idx[0]):
            # pointer was bitcast to a different struct type (ABI coercion of a small class to a literal
            # struct, or a derived-to-base view): when all indices are constant, address the same bytes
            # through the ORIGINAL type so that no second struct type is overlaid on the object
            try:
                off = 0; t = bt
                for ix in idx[1:]:
                    rt = self.resolve(t); n = self.const_int(ix)
                    if rt.kind == 'struct': off += self.offsets(rt)[n]; t = rt.elems[n]
                    elif rt.kind == 'array': off += n * self.sizeof(rt.elem); t = rt.elem
                    else: raise Unsupported('x')
                acc = self.find_at(org[1].to, off, t)
                if acc is not None:
                    return '(&(*%s)%s)' % (org[0], acc), T('ptr', to=t)
            except Unsupported:
                pass
        cur_t = bt
        lvmap = getattr(self, 'lv', {})
        if self.is_zero(idx[0]):
            expr = lvmap.get(base.c, '(*%s)' % base.c)
        else:
            expr = '%s[%s]' % (base.c, self.sidx(idx[0]))
        for ix in idx[1:]:
            rt = self.resolve(cur_t)
            if rt.kind == 'struct':
                n = self.const_int(ix)
                expr = '%s.f%d' % (expr, n)
                cur_t = rt.elems[n]
            elif rt.kind == 'array':
                if not self.is_const(ix) and self.has_inner_array(rt.elem) and rt.n <= 64:
                    # CBMC 6.11 work-around (DESIGN.md 2.2 item 11): a pointer to the first element of an array nested in
                    # an element selected by a *symbolic* index is mis-simplified (byte_extract at "c + i*k" is resolved
                    # against the innermost array starting at c).  Select the element by a case split over the
                    # constant indices instead; out-of-range indices keep the original expression (and its bounds check).
                    ie = self.sidx(ix)
                    sel = '&%s.a[%s]' % (expr, ie)
                    for k in range(rt.n - 1, -1, -1):
                        sel = '(%s) == %d ? &%s.a[%d] : %s' % (ie, k, expr, k, sel)
                    expr = '(*(%s))' % sel
                else:
                    expr = '%s.a[%s]' % (expr, self.sidx(ix))
                cur_t = rt.elem
            else:
                raise Unsupported('gep into ' + rt.kind)
        return '(&%s)' % expr, T('ptr', to=cur_t)
    def is_const(self, v):
        return re.fullmatch(r'\(\(uint\d+_t\)(\d+)U(LL)?\)', v.c) is not None
    def has_inner_array(self, t):
        t = self.resolve(t)
        if t.kind == 'array': return True
        if t.kind == 'struct': return any(self.has_inner_array(e) for e in t.elems)
        return False
    def is_zero(self, v):
        return re.fullmatch(r'\(\(uint\d+_t\)0U(LL)?\)', v.c) is not None
    def const_int(self, v):
        m = re.fullmatch(r'\(\(uint\d+_t\)(\d+)U(LL)?\)', v.c)
        if not m: raise Unsupported('non-constant struct index')
        return int(m.group(1))
    def sidx(self, v):
        # gep indices are signed
        if v.t.kind == 'int' and v.t.bits > 1:
            return '(%s)%s' % (sx(v.t.bits), v.c)
        return v.c
    def resolve(self, t):
        while t.kind == 'named':
            t = self.mod.named[t.name]
        return t

    def alignof(self, t):
        t = self.resolve(t)
        k = t.kind
        if k == 'int': return max(1, min(8, (t.bits + 7) // 8)) if t.bits in (1, 8, 16, 32, 64) else self._bad(t)
        if k == 'float': return 4
        if k in ('double', 'ptr'): return 8
        if k == 'array': return self.alignof(t.elem)
        if k == 'struct':
            if t.packed: return 1
            return max([self.alignof(e) for e in t.elems] or [1])
        raise Unsupported('alignof ' + k)
    def _bad(self, t): raise Unsupported('layout of ' + t.key())
    def sizeof(self, t):
        t = self.resolve(t)
        k = t.kind
        if k == 'int': return self.alignof(t)
        if k == 'float': return 4
        if k in ('double', 'ptr'): return 8
        if k == 'array': return t.n * self.sizeof(t.elem)
        if k == 'struct':
            if not t.elems: return 0
            offs = self.offsets(t)
            end = offs[-1] + self.sizeof(t.elems[-1])
            a = self.alignof(t)
            return (end + a - 1) // a * a
        raise Unsupported('sizeof ' + k)
    def offsets(self, t):
        offs = []; o = 0
        for e in t.elems:
            a = 1 if t.packed else self.alignof(e)
            o = (o + a - 1) // a * a
            offs.append(o); o += self.sizeof(e)
        return offs

    def flat(self, t, prefix, base_off, out):
        """flatten type t into scalar leaves: (c-accessor-suffix, byte offset, type)"""
        rt = self.resolve(t)
        if rt.kind == 'struct':
            for i, (o, e) in enumerate(zip(self.offsets(rt), rt.elems)):
                self.flat(e, prefix + '.f%d' % i, base_off + o, out)
        elif rt.kind == 'array':
            es = self.sizeof(rt.elem)
            for i in range(rt.n):
                self.flat(rt.elem, prefix + '.a[%d]' % i, base_off + i * es, out)
        else:
            out.append((prefix, base_off, rt))
    def punned(self, ptr_c, nbits):
        """if ptr_c is a bitcast of a struct pointer and an iN access of nbits can be split on
        integer field boundaries, return list of (lvalue, shift_bits, field_bits)"""
        org = getattr(self, 'origin', {}).get(ptr_c)
        if not org or org[1].kind != 'ptr': return None
        ty = org[1].to
        if self.resolve(ty).kind not in ('struct', 'array'): return None
        leaves = []
        self.flat(ty, '(*%s)' % org[0], 0, leaves)
        nbytes = nbits // 8
        parts = []
        covered = 0
        for acc, off, lt in leaves:
            if off >= nbytes: break
            if lt.kind != 'int' or lt.bits % 8 != 0: return None
            if off + lt.bits // 8 > nbytes: return None
            if off != covered: return None  # implicit padding hole
            parts.append((acc, off * 8, lt.bits))
            covered = off + lt.bits // 8
        if covered != nbytes: return None
        return parts

    # --- emit helpers
    def decl(self, lname, t):
        c = self.lname(lname)
        self.locals[c] = self.em.ct(t)
        self.vtypes[lname.strip('"')] = t
        return c
    def emit(self, s): self.out.append('  ' + s)

    def run(self):
        # pass 1: collect phi info
        blocks = []  # (label, [lines])
        cur = None
        for ln in self.lines:
            s = ln.strip()
            if not s or s.startswith(';'): continue
            m = re.match(r'^([-a-zA-Z$._0-9]+|"[^"]+"):', s)
            if m and not ln.startswith('  '):
                cur = (m.group(1).strip('"'), []); blocks.append(cur); continue
            if cur is None:
                cur = ('entry0', []); blocks.append(cur)
            if getattr(self, '_sw', None) is not None:
                self._sw += ' ' + s
                if s == ']':
                    cur[1].append(self._sw); self._sw = None
                continue
            if s.startswith('switch ') and not s.endswith(']'):
                self._sw = s
                continue
            cur[1].append(s)
        # first block label may be implicit (numbered)
        self.phis = collections.defaultdict(list)  # pred label -> [(dst c, value-src tokens, type)]
        phi_re = re.compile(r'^(%\S+) = phi ')
        for lab, ins in blocks:
            for s in ins:
                if phi_re.match(s):
                    tk = Toks(tokenize(s), s)
                    dst = tk.next()[1][1:]; tk.expect('='); tk.expect('phi')
                    t = parse_type(tk)
                    self.decl(dst, t)
                    self.decl(dst + '.phi', t)
                    while True:
                        tk.expect('[')
                        save = tk.i
                        # value may be forward reference; parse lazily by recording tokens
                        depth = 0; toks = []
                        while not (tk.peek()[1] == ',' and depth == 0):
                            kk, vv = tk.next()
                            if vv in '([{': depth += 1
                            if vv in ')]}': depth -= 1
                            toks.append((kk, vv))
                        tk.expect(',')
                        pred = tk.next()[1][1:].strip('"')
                        tk.expect(']')
                        self.phis[pred].append((dst, toks, t))
                        if not tk.accept(','): break
        self.curlabel = None
        first = True
        for lab, ins in blocks:
            self.curlabel = lab
            self.out.append(' L_%s: ;' % cname(lab))
            for s in ins:
                try:
                    self.instr(s)
                except Unsupported as e:
                    raise Unsupported('%s\n   in function %s\n   at: %s' % (e, self.name, s))
        # assemble
        ps = ', '.join('%s %s' % (self.em.ct(t), self.lname(n)) for t, n in self.params) or 'void'
        head = '%s %s(%s)' % (self.em.ct(self.ret), cname(self.name), ps)
        body = ['{']
        pn = set(self.lname(n) for t, n in self.params)
        for c, ty in self.locals.items():
            if c in pn: continue
            body.append('  %s %s;' % (ty, c))
        body += self.out
        body.append('}')
        return head, '\n'.join(body)

    def phi_moves(self, target):
        """emit parallel copies for phis in `target` coming from current block"""
        moves = [(d, toks, t) for (d, toks, t) in self.phis.get(self.curlabel, []) if self.phi_target.get(d) == target]
        return moves

    def do_phis_for_edge(self):
        # assign all phi temporaries whose incoming edge is from the current block (regardless of target:
        # a block has a single terminator; phi nodes keyed by (pred) -- if the same pred feeds phis in two
        # different successors, assigning both temporaries is harmless since only the taken one is read).
        ms = self.phis.get(self.curlabel, [])
        for d, toks, t in ms:
            v = self.value(Toks(list(toks), 'phi'), t)
            self.emit('%s = %s;' % (self.lname(d + '.phi'), v.c))

    def instr(self, s):
        if '@llvm.experimental.noalias.scope.decl' in s or '@llvm.dbg.' in s or '@llvm.lifetime.' in s:
            return
        s = re.sub(r', !(noalias|alias\.scope|tbaa|llvm\.loop|nonnull|range|noundef|align|dereferenceable)\b[^,]*', '', s)
        s = re.sub(r'(, ![A-Za-z_.]+ ![0-9]+)+\s*$', '', s)     # trailing instruction metadata (!nosanitize, !srcloc, ...) carries no semantics
        tk = Toks(tokenize(s), s)
        dst = None
        if tk.peek()[0] == 'id' and tk.peek(1)[1] == '=':
            dst = tk.next()[1][1:]; tk.next()
        op = tk.next()[1]
        E = self.em
        if op == 'phi':
            # value was placed in <dst>.phi by predecessors
            self.emit('%s = %s;' % (self.lname(dst), self.lname(dst + '.phi')))
            return
        if op == 'alloca':
            t = parse_type(tk)
            if tk.accept(','):
                if tk.peek()[1] != 'align':
                    raise Unsupported('alloca with count')
            c = self.decl(dst, T('ptr', to=t))
            st = c + '_mem'
            self.locals[st] = E.ct(t)
            self.emit('%s = &%s;' % (c, st))
            return
        if op == 'load':
            tk.accept('volatile')
            t = parse_type(tk); tk.expect(',')
            p = self.typed_value(tk)
            c = self.decl(dst, t)
            if t.kind == 'int' and t.bits > 8:
                parts = self.punned(p.c, t.bits)
                if parts:
                    U = 'uint%d_t' % (32 if t.bits <= 32 else 64)
                    self.emit('%s = (%s)(%s); /* punned load split on field boundaries */' % (c, self.em.ct(t), ' | '.join('((%s)%s << %d)' % (U, acc, sh) for acc, sh, fb in parts)))
                    return
            if t.kind == 'int' and t.bits not in (1, 8, 16, 32, 64):
                nb = t.bits // 8
                self.emit('%s = (%s)(%s); /* odd-width load, bytewise */' % (c, self.em.ct(t), ' | '.join('((uint64_t)((u8*)%s)[%d] << %d)' % (p.c, k, 8 * k) for k in range(nb))))
                return
            self.emit('%s = %s;' % (c, getattr(self, 'lv', {}).get(p.c, '*' + p.c)))
            return
        if op == 'store':
            tk.accept('volatile')
            v = self.typed_value(tk); tk.expect(',')
            p = self.typed_value(tk)
            if v.t.kind == 'int' and v.t.bits > 8:
                parts = self.punned(p.c, v.t.bits)
                if parts:
                    for acc, sh, fb in parts:
                        self.emit('%s = (%s)(%s >> %d); /* punned store split on field boundaries */' % (acc, 'u8' if fb == 8 else 'uint%d_t' % fb, v.c, sh))
                    return
            if v.t.kind == 'int' and v.t.bits not in (1, 8, 16, 32, 64):
                for k in range(v.t.bits // 8):
                    self.emit('((u8*)%s)[%d] = (u8)(%s >> %d); /* odd-width store, bytewise */' % (p.c, k, v.c, 8 * k))
                return
            self.emit('%s = %s;' % (getattr(self, 'lv', {}).get(p.c, '*' + p.c), v.c))
            return
        if op == 'getelementptr':
            tk.accept('inbounds')
            bt = parse_type(tk); tk.expect(',')
            base = self.typed_value(tk)
            idx = []
            while tk.accept(','):
                idx.append(self.typed_value(tk))
            cexpr, rt = self.gep(base, bt, idx)
            c = self.decl(dst, rt)
            self.emit('%s = %s;' % (c, cexpr))
            if cexpr.startswith('(&') and cexpr.endswith(')'):
                self.lv = getattr(self, 'lv', {})
                self.lv[c] = cexpr[2:-1]   # SSA: operands are immutable, so the lvalue text stays valid
            return
        if op in ('bitcast', 'inttoptr', 'ptrtoint', 'trunc', 'zext', 'sext', 'fptrunc', 'fpext', 'uitofp', 'sitofp', 'fptoui', 'fptosi'):
            v = self.typed_value(tk); tk.expect('to'); dt = parse_type(tk)
            c = self.decl(dst, dt)
            st = v.t
            if op == 'bitcast':
                if st.kind == 'ptr' and dt.kind == 'ptr':
                    self.origin = getattr(self, 'origin', {})
                    self.origin[c] = self.origin.get(v.c, (v.c, st))
                    self.emit('%s = (%s)%s;' % (c, E.ct(dt), v.c))
                else:
                    raise Unsupported('non-pointer bitcast')
            elif op in ('inttoptr',):
                self.emit('%s = (%s)(uintptr_t)%s;' % (c, E.ct(dt), v.c))
            elif op == 'ptrtoint':
                self.emit('%s = (%s)(uintptr_t)%s;' % (c, E.ct(dt), v.c))
            elif op == 'trunc':
                if dt.bits == 1:
                    self.emit('%s = (%s & 1) != 0;' % (c, v.c))
                elif dt.bits not in (8, 16, 32, 64):
                    self.emit('%s = (%s)(%s & ((1ULL << %d) - 1));' % (c, E.ct(dt), v.c, dt.bits))
                else:
                    self.emit('%s = (%s)%s;' % (c, E.ct(dt), v.c))
            elif op == 'zext':
                self.emit('%s = (%s)%s;' % (c, E.ct(dt), v.c))
            elif op == 'sext':
                if st.bits == 1:
                    self.emit('%s = %s ? (%s)-1 : 0;' % (c, v.c, E.ct(dt)))
                else:
                    self.emit('%s = (%s)(%s)(%s)%s;' % (c, E.ct(dt), sx(dt.bits), sx(st.bits), v.c))
            elif op in ('fptrunc', 'fpext'):
                self.emit('%s = (%s)%s;' % (c, E.ct(dt), v.c))
            elif op == 'uitofp':
                self.emit('%s = (%s)%s;' % (c, E.ct(dt), v.c))
            elif op == 'sitofp':
                self.emit('%s = (%s)(%s)%s;' % (c, E.ct(dt), sx(st.bits), v.c))
            elif op == 'fptoui':
                # the only integer conversions with undefined behaviour: the value must fit (explicit obligation instead of --conversion-check)
                self.emit('__CPROVER_assert(%s > -1.0 && %s < %s, "float to unsigned conversion: value in range");' % (v.c, v.c, float(2 ** dt.bits).hex()))
                self.emit('%s = (%s)%s;' % (c, E.ct(dt), v.c))
            elif op == 'fptosi':
                self.emit('__CPROVER_assert(%s > %s && %s < %s, "float to signed conversion: value in range");' % (v.c, float(-(2 ** (dt.bits - 1)) - 1).hex(), v.c, float(2 ** (dt.bits - 1)).hex()))
                self.emit('%s = (%s)(%s)%s;' % (c, E.ct(dt), sx(dt.bits), v.c))
            return
        if op in ('add', 'sub', 'mul', 'and', 'or', 'xor', 'shl', 'lshr', 'ashr', 'udiv', 'sdiv', 'urem', 'srem'):
            flags = set()
            while tk.peek()[1] in ('nsw', 'nuw', 'exact'):
                flags.add(tk.next()[1])
            t = parse_type(tk)
            a = self.value(tk, t); tk.expect(','); b = self.value(tk, t)
            c = self.decl(dst, t)
            bits = t.bits
            if bits not in (1, 8, 16, 32, 64):
                if op not in ('and', 'or', 'xor', 'shl', 'lshr'): raise Unsupported('odd-width ' + op)
                symo = {'and': '&', 'or': '|', 'xor': '^', 'shl': '<<', 'lshr': '>>'}[op]
                self.emit('%s = (%s)(((uint64_t)%s %s (uint64_t)%s) & ((1ULL << %d) - 1));' % (c, E.ct(t), a.c, symo, b.c, bits))
                return
            U = 'uint%d_t' % max(bits, 32) if bits != 64 else 'uint64_t'
            S = 'int%d_t' % max(bits, 32) if bits != 64 else 'int64_t'
            ct = E.ct(t)
            sym = {'add': '+', 'sub': '-', 'mul': '*', 'and': '&', 'or': '|', 'xor': '^', 'shl': '<<', 'lshr': '>>', 'udiv': '/', 'urem': '%'}
            if bits == 1:
                if op in ('and', 'or', 'xor'):
                    self.emit('%s = (%s %s %s) & 1;' % (c, a.c, sym[op], b.c)); return
                raise Unsupported('i1 arithmetic ' + op)
            if op in ('add', 'sub', 'mul') and 'nsw' in flags and bits >= 32:
                # signed overflow is UB in the source language: keep it checkable (cbmc --signed-overflow-check)
                self.emit('%s = (%s)((%s)%s %s (%s)%s);' % (c, ct, sx(bits), a.c, sym[op], sx(bits), b.c))
            elif op in sym:
                self.emit('%s = (%s)((%s)%s %s (%s)%s);' % (c, ct, U, a.c, sym[op], U, b.c))
            elif op == 'ashr':
                self.emit('%s = (%s)((%s)%s >> %s);' % (c, ct, sx(bits), a.c, b.c))
            elif op in ('sdiv', 'srem'):
                self.emit('%s = (%s)((%s)%s %s (%s)%s);' % (c, ct, sx(bits), a.c, '/' if op == 'sdiv' else '%', sx(bits), b.c))
            return
        if op in ('fadd', 'fsub', 'fmul', 'fdiv', 'frem'):
            while tk.peek()[1] in ('fast', 'nnan', 'ninf', 'nsz', 'arcp', 'contract', 'afn', 'reassoc'):
                raise Unsupported('fast-math flags')
            t = parse_type(tk)
            a = self.value(tk, t); tk.expect(','); b = self.value(tk, t)
            c = self.decl(dst, t)
            sym = {'fadd': '+', 'fsub': '-', 'fmul': '*', 'fdiv': '/'}
            if op not in sym: raise Unsupported(op)
            self.emit('%s = %s %s %s;' % (c, a.c, sym[op], b.c))
            return
        if op == 'fneg':
            t = parse_type(tk); a = self.value(tk, t)
            c = self.decl(dst, t); self.emit('%s = -%s;' % (c, a.c)); return
        if op == 'icmp':
            pred = tk.next()[1]
            t = parse_type(tk)
            a = self.value(tk, t); tk.expect(','); b = self.value(tk, t)
            c = self.decl(dst, T('int', bits=1))
            sym = {'eq': '==', 'ne': '!=', 'ugt': '>', 'uge': '>=', 'ult': '<', 'ule': '<=', 'sgt': '>', 'sge': '>=', 'slt': '<', 'sle': '<='}[pred]
            if pred[0] == 's' and t.kind == 'int':
                self.emit('%s = (%s)%s %s (%s)%s;' % (c, sx(t.bits), a.c, sym, sx(t.bits), b.c))
            else:
                self.emit('%s = %s %s %s;' % (c, a.c, sym, b.c))
            return
        if op == 'fcmp':
            pred = tk.next()[1]
            t = parse_type(tk)
            a = self.value(tk, t); tk.expect(','); b = self.value(tk, t)
            c = self.decl(dst, T('int', bits=1))
            o = {'oeq': '==', 'ogt': '>', 'oge': '>=', 'olt': '<', 'ole': '<=', 'une': '!='}
            if pred in o:
                self.emit('%s = %s %s %s;' % (c, a.c, o[pred], b.c))
            elif pred == 'one':
                self.emit('%s = (%s < %s) || (%s > %s);' % (c, a.c, b.c, a.c, b.c))
            elif pred in ('ueq', 'ugt', 'uge', 'ult', 'ule'):
                oo = {'ueq': '==', 'ugt': '>', 'uge': '>=', 'ult': '<', 'ule': '<='}[pred]
                self.emit('%s = (%s != %s) || (%s != %s) || (%s %s %s);' % (c, a.c, a.c, b.c, b.c, a.c, oo, b.c))
            elif pred == 'uno':
                self.emit('%s = (%s != %s) || (%s != %s);' % (c, a.c, a.c, b.c, b.c))
            elif pred == 'ord':
                self.emit('%s = (%s == %s) && (%s == %s);' % (c, a.c, a.c, b.c, b.c))
            else:
                raise Unsupported('fcmp ' + pred)
            return
        if op == 'select':
            cnd = self.typed_value(tk); tk.expect(',')
            a = self.typed_value(tk); tk.expect(','); b = self.typed_value(tk)
            c = self.decl(dst, a.t)
            self.emit('%s = %s ? %s : %s;' % (c, cnd.c, a.c, b.c))
            return
        if op == 'extractvalue':
            v = self.typed_value(tk)
            t = v.t; expr = v.c
            while tk.accept(','):
                n = int(tk.next()[1])
                rt = self.resolve(t)
                if rt.kind == 'struct': expr += '.f%d' % n; t = rt.elems[n]
                elif rt.kind == 'array': expr += '.a[%d]' % n; t = rt.elem
                else: raise Unsupported('extractvalue')
            c = self.decl(dst, t)
            self.emit('%s = %s;' % (c, expr))
            return
        if op == 'insertvalue':
            agg = self.typed_value(tk); tk.expect(',')
            el = self.typed_value(tk)
            c = self.decl(dst, agg.t)
            self.emit('%s = %s;' % (c, agg.c))
            t = agg.t; expr = c
            while tk.accept(','):
                n = int(tk.next()[1])
                rt = self.resolve(t)
                if rt.kind == 'struct': expr += '.f%d' % n; t = rt.elems[n]
                elif rt.kind == 'array': expr += '.a[%d]' % n; t = rt.elem
            self.emit('%s = %s;' % (expr, el.c))
            return
        if op in ('call', 'tail', 'musttail', 'notail'):
            if op != 'call':
                tk.expect('call')
            return self.call(tk, dst)
        if op == 'br':
            self.do_phis_for_edge()
            if tk.accept('label'):
                l = tk.next()[1][1:]
                self.emit('goto L_%s;' % cname(l))
            else:
                cnd = self.typed_value(tk); tk.expect(',')
                tk.expect('label'); l1 = tk.next()[1][1:]; tk.expect(',')
                tk.expect('label'); l2 = tk.next()[1][1:]
                self.emit('if (%s) goto L_%s; else goto L_%s;' % (cnd.c, cname(l1), cname(l2)))
            return
        if op == 'switch':
            self.do_phis_for_edge()
            v = self.typed_value(tk); tk.expect(',')
            tk.expect('label'); dflt = tk.next()[1][1:]
            tk.expect('[')
            cases = []
            while not tk.accept(']'):
                cv = self.typed_value(tk); tk.expect(','); tk.expect('label'); cl = tk.next()[1][1:]
                cases.append((cv.c, cl))
            self.emit('switch (%s) {' % v.c)
            for cv, cl in cases:
                self.emit('  case %s: goto L_%s;' % (cv, cname(cl)))
            self.emit('  default: goto L_%s;' % cname(dflt))
            self.emit('}')
            return
        if op == 'ret':
            if tk.accept('void'):
                self.emit('return;')
            else:
                v = self.typed_value(tk)
                self.emit('return %s;' % v.c)
            return
        if op == 'unreachable':
            self.emit('__CPROVER_assert(0, "reached llvm unreachable"); __CPROVER_assume(0);')
            return
        raise Unsupported('opcode ' + op)

    def call(self, tk, dst):
        E = self.em
        while tk.peek()[0] == 'word' and tk.peek()[1] in ('fastcc', 'ccc', 'noundef', 'nonnull', 'zeroext', 'signext', 'noalias', 'nnan', 'ninf', 'nsz', 'contract', 'afn', 'reassoc', 'arcp', 'fast') or tk.peek()[1] in ('align', 'dereferenceable', 'dereferenceable_or_null'):
            skip_param_attrs(tk)
        rt = parse_type(tk)
        fty = None
        if rt.kind == 'func':
            fty = rt; rt = fty.ret
        elif rt.kind == 'ptr' and rt.to.kind == 'func':
            fty = rt.to; rt = fty.ret
        k, v = tk.next()
        callee = v
        tk.expect('(')
        args = []
        if not tk.accept(')'):
            while True:
                args.append(self.typed_value(tk))
                if tk.accept(')'): break
                tk.expect(',')
        if callee[0] == '@':
            fn = callee[1:].strip('"')
            if fn in ('memcpy', 'memmove', 'memset'):
                if dst is not None:
                    c = self.decl(dst, rt); self.emit('%s = %s;' % (c, args[0].c))
                fn = 'llvm.' + fn
            # intrinsics
            if fn.startswith('llvm.memcpy') or fn.startswith('llvm.memmove'):
                f = 'memcpy' if 'memcpy' in fn else 'memmove'
                org = getattr(self, 'origin', {})
                d0 = org.get(args[0].c); s0 = org.get(args[1].c)
                mN = re.fullmatch(r'\(\(uint64_t\)(\d+)ULL\)', args[2].c)
                if d0 and s0 and mN and d0[1].key() == s0[1].key() and d0[1].to.kind in ('named', 'struct', 'array'):
                    N = int(mN.group(1)); ty = d0[1].to
                    lvm = getattr(self, 'lv', {})
                    if N == self.sizeof(ty):
                        self.emit('%s = %s; /* typed memcpy %d */' % (lvm.get(d0[0], '*' + d0[0]), lvm.get(s0[0], '*' + s0[0]), N)); return
                    rt_ = self.resolve(ty)
                    if rt_.kind == 'struct':
                        offs = self.offsets(rt_)
                        ends = [o + self.sizeof(e) for o, e in zip(offs, rt_.elems)]
                        if N in ends:
                            k = ends.index(N)
                            for j in range(k + 1):
                                self.emit('%s.f%d = %s.f%d; /* typed memcpy %d (tail padding excluded) */' % (lvm.get(d0[0], '(*%s)' % d0[0]), j, lvm.get(s0[0], '(*%s)' % s0[0]), j, N))
                            return
            if fn.startswith('llvm.memset'):
                org = getattr(self, 'origin', {})
                d0 = org.get(args[0].c)
                mN = re.fullmatch(r'\(\(uint64_t\)(\d+)ULL\)', args[2].c)
                if d0 and mN and args[1].c == '((uint8_t)0U)' and d0[1].to.kind in ('named', 'struct', 'array'):
                    if int(mN.group(1)) == self.sizeof(d0[1].to):
                        self.emit('*%s = (%s){0}; /* typed memset */' % (d0[0], E.ct(d0[1].to))); return
            if fn.startswith('llvm.memcpy') or fn.startswith('llvm.memmove'):
                self.emit('%s(%s, %s, %s);' % (f, args[0].c, args[1].c, args[2].c)); return
            if fn.startswith('llvm.memset'):
                self.emit('memset(%s, %s, %s);' % (args[0].c, args[1].c, args[2].c)); return
            if fn.startswith('llvm.lifetime') or fn.startswith('llvm.dbg') or fn.startswith('llvm.experimental.noalias'):
                return
            if fn == 'llvm.trap':
                self.emit('__CPROVER_assert(0, "llvm.trap"); __CPROVER_assume(0);'); return
            if fn.startswith('llvm.'):
                raise Unsupported('intrinsic ' + fn)
            if fn in ('__CPROVER_assert',):
                # second arg is a string constant gep
                msg = self.mod.strlits.get(args[1].c, None)
                if msg is None: raise Unsupported('__CPROVER_assert message is not a string literal: ' + args[1].c)
                self.emit('__CPROVER_assert(%s, "%s");' % (args[0].c, msg)); return
            if fn in FORBIDDEN_CALLS:
                raise Unsupported('call to %s (%s)' % (fn, FORBIDDEN_CALLS[fn]))
            if fn not in self.mod.defined and not re.match(ALLOWED_EXTERNAL, fn):
                raise Unsupported('call to undeclared external ' + fn)
            fexpr = cname(fn)
        else:
            fp = self.lname(callee[1:])
            if fty is None:
                fty = T('func', ret=rt, params=[a.t for a in args], vararg=False)
            fexpr = '((%s)%s)' % (E.fnptr(fty), fp)
        for i, a in enumerate(args):
            if getattr(a, 'byval', None) is not None:
                self.ntmp = getattr(self, 'ntmp', 0) + 1
                tmp = 'byval_tmp%d' % self.ntmp
                self.locals[tmp] = E.ct(a.byval)
                self.emit('%s = *%s;' % (tmp, a.c))
                a.c = '(&%s)' % tmp
        call = '%s(%s)' % (fexpr, ', '.join(a.c for a in args))
        if rt.kind == 'void' or dst is None:
            self.emit(call + ';')
        else:
            c = self.decl(dst, rt)
            self.emit('%s = %s;' % (c, call))

# ----------------------------------------------------------------------------- module parse + emit

def parse_module(text):
    mod = Module()
    mod.strlits = {}
    lines = text.split('\n')
    i = 0
    n = len(lines)
    while i < n:
        ln = lines[i]
        s = ln.strip()
        if not s or s.startswith(';') or s.startswith('source_filename') or s.startswith('target ') or s.startswith('attributes ') or s.startswith('!') or s.startswith('$'):
            i += 1; continue
        if s.startswith('%') and ' = type ' in s:
            name, rest = s.split(' = type ', 1)
            tk = Toks(tokenize(rest), s)
            mod.named[name[1:].strip('"')] = parse_type(tk)
            i += 1; continue
        if s.startswith('@'):
            mod.globals_raw = getattr(mod, 'globals_raw', [])
            mod.globals_raw.append(s)
            m = re.match(r'@("[^"]+"|[-\w.$]+) = ', s)
            mod.globals[m.group(1).strip('"')] = s
            i += 1; continue
        if s.startswith('declare '):
            mod.decls[len(mod.decls)] = s
            i += 1; continue
        if s.startswith('define '):
            body = []
            i += 1
            while lines[i].strip() != '}':
                body.append(lines[i]); i += 1
            i += 1
            mod.funcs[len(mod.funcs)] = (s, body)
            continue
        raise Unsupported('top-level: ' + s[:80])
    return mod

LINKAGE = {'private','internal','available_externally','linkonce','weak','common','appending','extern_weak','linkonce_odr','weak_odr','external','dso_local','dso_preemptable','hidden','protected','default','unnamed_addr','local_unnamed_addr','constant','global','thread_local'}

def parse_signature(s, is_define):
    tk = Toks(tokenize(s), s)
    tk.next()  # define/declare
    while tk.peek()[0] == 'word' and (tk.peek()[1] in LINKAGE or tk.peek()[1] in PARAM_ATTRS or tk.peek()[1] in ('fastcc','ccc')):
        tk.next()
    while tk.peek()[1] in ('align', 'dereferenceable', 'dereferenceable_or_null'):
        skip_param_attrs(tk)
    # return type (careful: parse_type would eat the '(' params as function type) -> parse manually
    rt = parse_type_nofunc(tk)
    name = tk.next()[1][1:].strip('"')
    tk.expect('(')
    params = []
    vararg = False
    if not tk.accept(')'):
        while True:
            if tk.peek()[0] == 'dots':
                tk.next(); vararg = True
            else:
                t = parse_type(tk)
                skip_param_attrs(tk)
                pn = None
                if tk.peek()[0] == 'id':
                    pn = tk.next()[1][1:]
                params.append((t, pn))
            if tk.accept(')'): break
            tk.expect(',')
    return rt, name, params, vararg

def parse_type_nofunc(tk):
    # like parse_type but stops before '(' (function definitions: "define i32 @f(...)")
    save = tk.t
    # find index of the '@name' token; temporarily truncate
    j = tk.i
    while tk.t[j][0] != 'id' or tk.t[j][1][0] != '@':
        j += 1
    sub = Toks(tk.t[tk.i:j], tk.line)
    t = parse_type(sub)
    skip_param_attrs(sub)
    tk.i = j
    return t

def global_init(fe, tk, t):
    """constant initializer -> C initializer text"""
    E = fe.em
    k, v = tk.peek()
    if v == 'zeroinitializer':
        tk.next(); return '{0}'
    if v in ('undef', 'poison'):
        tk.next(); return '{0}'
    rt = fe.resolve(t)
    if k == 'str':
        tk.next()
        raw = v[2:-1]
        bs = []
        j = 0
        while j < len(raw):
            if raw[j] == '\\':
                if raw[j+1] == '\\': bs.append(92); j += 2
                else: bs.append(int(raw[j+1:j+3], 16)); j += 3
            else:
                bs.append(ord(raw[j])); j += 1
        return '{{' + ','.join(str(b) for b in bs) + '}}'
    if v == '[':
        tk.next()
        items = []
        while True:
            et = parse_type(tk)
            items.append(global_init(fe, tk, et))
            if tk.accept(']'): break
            tk.expect(',')
        return '{{' + ', '.join(items) + '}}'
    if v == '{' or (v == '<' and tk.peek(1)[1] == '{'):
        if v == '<': tk.next()
        tk.next()
        items = []
        while True:
            et = parse_type(tk)
            items.append(global_init(fe, tk, et))
            if tk.accept('}'): break
            tk.expect(',')
        tk.accept('>')
        return '{' + ', '.join(items) + '}'
    val = fe.value(tk, t)
    return val.c

def emit_module(mod, out, contracts=None, aliases=None):
    em = Emitter(mod)
    if aliases is None: aliases = []
    # named struct bodies
    struct_defs = []
    for name, t in mod.named.items():
        cn = em.named_c[name]
        if t.kind == 'opaque':
            continue
        fs = ' '.join('%s f%d;' % (em.ct(e), i) for i, e in enumerate(t.elems)) if t.elems else 'char _empty;'
        struct_defs.append((name, 'struct %s%s { %s };' % ('__attribute__((packed)) ' if t.packed else '', cn, fs)))
    dummy = FuncEmitter(em, mod, '<globals>', T('void'), [], [], '')
    # globals
    gtext = []
    gdecl = []
    for gname, s in mod.globals.items():
        tk = Toks(tokenize(s), s)
        tk.next(); tk.expect('=')
        is_const = False
        is_ext = False
        while tk.peek()[0] == 'word' and tk.peek()[1] in LINKAGE:
            w = tk.next()[1]
            if w == 'constant': is_const = True
            if w == 'external': is_ext = True
        t = parse_type(tk)
        cn = 'G_' + cname(gname)
        cty = em.ct(t)
        if is_ext or tk.eof() or tk.peek()[1] == ',':
            if not re.match(ALLOWED_EXTERNAL_GLOBALS, gname):
                raise Unsupported('external global ' + gname)
            gdecl.append('extern %s %s;' % (cty, cn))
            continue
        # string literal capture for __CPROVER_assert messages
        if tk.peek()[0] == 'str':
            raw = tk.peek()[1][2:-1]
            txt = re.sub(r'\\00$', '', raw)
            if '\\' not in txt:
                mod.strlits['(&(*(&%s)).a[(int64_t)((uint64_t)0ULL)])' % cn] = txt
                mod.strlits['(&(*(&%s)).a[(int32_t)((uint32_t)0U)])' % cn] = txt
                mod.strlits[cn] = txt
        init = global_init(dummy, tk, t)
        gdecl.append('extern %s%s %s;' % ('const ' if is_const else '', cty, cn))
        gtext.append('%s%s %s = %s;' % ('const ' if is_const else '', cty, cn, init))
    # function prototypes + bodies
    protos = []
    bodies = []
    mod.defined = set(parse_signature(sig, True)[1] for sig, body in mod.funcs.values())
    contracts = contracts or []
    used_contracts = set()
    for idx, (sig, body) in mod.funcs.items():
        rt, name, params, vararg = parse_signature(sig, True)
        ps = [(t, pn if pn is not None else 'arg%d' % i) for i, (t, pn) in enumerate(params)]
        fe = FuncEmitter(em, mod, name, rt, ps, body, sig)
        for t, pn in ps:
            fe.decl(pn, t)
        head, text = fe.run()
        protos.append(head + ';')
        clauses = ''
        for ci, (pat, alias, ctext) in enumerate(contracts):
            if re.search(pat, name):
                if ci in used_contracts:
                    raise Unsupported('contract pattern %r matches more than one function (second: %s)' % (pat, name))
                used_contracts.add(ci)
                # positional parameter names $0,$1.. and $ret in clause text
                for i, (t, pn) in enumerate(ps):
                    ctext = ctext.replace('$%d' % i, fe.lname(pn))
                clauses = '\n#ifdef LL2C_CPROVER\n' + ctext.replace('$ret', '__CPROVER_return_value').rstrip('\n') + '\n#endif'
                aliases.append((alias, cname(name)))
        bodies.append(head + clauses + '\n' + text)
    for ci, (pat, alias, ctext) in enumerate(contracts):
        if ci not in used_contracts:
            raise Unsupported('contract pattern %r matches no function (renamed or no longer instantiated)' % pat)
    for idx, sig in mod.decls.items():
        rt, name, params, vararg = parse_signature(sig, False)
        if name.startswith('llvm.') or name.startswith('__CPROVER') or name in ('memcpy', 'memmove', 'memset'):
            continue
        ps = ', '.join(em.ct(t) for t, pn in params) or 'void'
        protos.append('%s %s(%s);' % (em.ct(rt), cname(name), ps))
    w = out.write
    w('/* generated by ll2c.py from LLVM IR -- do not edit */\n#include <stdint.h>\n#include <stddef.h>\n#include <string.h>\n#ifdef LL2C_CPROVER\ntypedef unsigned __CPROVER_bitvector[8] u8;\n#else\ntypedef uint8_t u8;\n#endif\n')
    for name in mod.named:
        w('struct %s;\n' % em.named_c[name])
    # typedefs and struct bodies must be ordered by dependency: do a simple fixpoint ordering
    items = []  # (cname, text)
    for d in em.tdefs:
        m = re.search(r'\}\s*(\w+);$', d) or re.search(r'\(\*(\w+)\)', d)
        items.append((m.group(1), d))
    for name, d in struct_defs:
        items.append(('struct ' + em.named_c[name], d))
    emitted = set()
    pending = items
    names = [n for n, _ in items]
    def deps(text, self_name):
        ds = set()
        body = text
        for n in names:
            if n == self_name: continue
            # by-value use: name followed by space+identifier (not '*')
            for m in re.finditer(r'(?<![\w])' + re.escape(n) + r'(?![\w])\s*(\*?)', body):
                if m.group(1) != '*':
                    ds.add(n)
        return ds
    depmap = {n: deps(t, n) for n, t in items}
    progress = True
    while pending and progress:
        progress = False
        rest = []
        for n, t in pending:
            if depmap[n] <= emitted:
                w(t + '\n'); emitted.add(n); progress = True
            else:
                rest.append((n, t))
        pending = rest
    if pending:
        raise Unsupported('cyclic type dependency: ' + ', '.join(n for n, _ in pending))
    for fn, ct in em.undef_fns.items():
        w('#ifdef LL2C_CPROVER\n%s %s(void) { %s z; return z; }   /* an uninitialised local is a fresh nondeterministic value under CBMC (aggregates included) */\n#else\nstatic inline %s %s(void) { %s z; memset(&z, 0, sizeof z); return z; }\n#endif\n' % (ct, fn, ct, ct, fn, ct))
    for g in gdecl: w(g + '\n')
    for p in protos: w(p + '\n')
    for g in gtext: w(g + '\n')
    for b in bodies: w(b + '\n\n')
    return len(bodies)

def load_contracts(path):
    """spec file: blocks  'function <regex> as <alias>' followed by clause lines, separated by blank lines"""
    out = []; cur = None
    for ln in open(path):
        if ln.startswith('#'): continue
        m = re.match(r'^function\s+(\S+)\s+as\s+(\w+)\s*$', ln)
        if m:
            cur = [m.group(1), m.group(2), '']; out.append(cur); continue
        if ln.strip() and cur is not None:
            cur[2] += ln
    return [tuple(c) for c in out]

if __name__ == '__main__':
    import argparse
    ap = argparse.ArgumentParser()
    ap.add_argument('src'); ap.add_argument('dst')
    ap.add_argument('--contracts'); ap.add_argument('--aliases')
    a = ap.parse_args()
    src, dst = a.src, a.dst
    try:
        mod = parse_module(open(src).read())
        aliases = []
        with open(dst, 'w') as f:
            n = emit_module(mod, f, load_contracts(a.contracts) if a.contracts else None, aliases)
        if a.aliases:
            with open(a.aliases, 'w') as f:
                for al, cn in aliases: f.write('%s %s\n' % (al, cn))
        print('ll2c: %d functions lowered' % n)
    except Unsupported as e:
        print('ll2c: UNSUPPORTED: %s' % e, file=sys.stderr)
        sys.exit(2)
