#include <stdio.h>
#include <stdlib.h>
#include <string.h>
#include <stdint.h>
void h_update(void* fsm); void h_change(void* fsm, uint16_t s); void h_enter(void* fsm); void h_ctor(void* mem, void* rng); unsigned h_size(void);
void cb_change(void* c, uint16_t s);
static uint32_t seed=12345; static uint32_t rnd(void){ seed = seed*1664525u+1013904223u; return seed>>8; }
float verif_nondet_float(void){ return (rnd()%1000)/1000.0f; }
unsigned char verif_nondet_u8(void){ return rnd(); }
static unsigned long long h=1469598103934665603ull; static long ncb=0;
void verif_cb(int state, int method, void* control){
  ncb++; h = (h ^ (unsigned)(state*32+method)) * 1099511628211ull;
  if (method==4 && rnd()%3==0) cb_change(control, 1 + rnd()%9);
}
int main(int argc,char**argv){
  if (argc>1) seed=atoi(argv[1]);
  unsigned n=h_size(); void* mem=malloc(n); memset(mem,0xAB,n); char rng[8];
  h_ctor(mem,rng); h_enter(mem);
  for(int i=0;i<2000;i++){ if(rnd()%4==0) h_change(mem,1+rnd()%9); else h_update(mem); }
  printf("size=%u ncb=%ld hash=%llx\n", n, ncb, h);
  return 0;
}
