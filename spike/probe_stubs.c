#include <stdint.h>
void cb_change(void* c, uint16_t s);
float nondet_float(void); unsigned char nondet_uchar(void); uint16_t nondet_u16(void);
float verif_nondet_float(void){ float f = nondet_float(); __CPROVER_assume(f >= 0.0f && f < 1.0f); return f; }
int nreq;
void verif_cb(int state, int method, void* control){ }
