// C19 (array part): DynamicArrayT<TransitionT<Payload>, CAP> as a bounded sequence; StaticArrayT<Short, CAP>.   Tier A
#define HFSM2_ENABLE_PLANS
#include "common/verif.hpp"
using namespace hfsm2; using namespace hfsm2::detail;
#ifndef CAP
#define CAP 4
#endif
#ifndef CAP2
#define CAP2 3
#endif
#ifdef PAYLOAD_INT
using PL = int32_t;
#else
using PL = void;
#endif
using Item = TransitionT<PL>;
using DA = DynamicArrayT<Item, CAP>;
using DB = DynamicArrayT<Item, CAP2>;
using SA = StaticArrayT<Short, CAP>;

static bool item_eq(const Item& a, const Item& b) {
  bool r = a.origin == b.origin && a.destination == b.destination && a.method == b.method && a.type == b.type;
#ifdef PAYLOAD_INT
  r = r && a.payloadSet == b.payloadSet;                       // view: (has payload, value) - the bytes of an absent payload are nobody's business
  if (a.payloadSet) for (unsigned k = 0; k < sizeof(PL); ++k) r = r && a.storage[k] == b.storage[k];
#endif
  return r;
}
static void nd_item(Item& it) {
  it.origin = nd_u16(); it.destination = nd_u16(); it.method = (Method) nd_u8(); it.type = (TransitionType) nd_u8();
#ifdef PAYLOAD_INT
  it.payloadSet = nd_bool(); for (unsigned k = 0; k < sizeof(PL); ++k) it.storage[k] = nd_u8();
#endif
}
template <typename A> static void nd_array(A& a) { for (unsigned i = 0; i < A::CAPACITY; ++i) nd_item(a._items[i]); a._count = nd_u8(); }

extern "C" void proof_da_init() {
  DA a;
  VASSERT(C19, a.count() == 0 && a.empty(), "new array is empty");
}
extern "C" void proof_da_emplace_copy() {
  DA a; nd_array(a); VASSUME(a._count < CAP);        // call-site precondition (checked as C11 obligation where it is called)
  VREACH("append one");
  DA old = a; Item x; nd_item(x);
  auto r = a.emplace(x);
  VASSERT(C19, r == old._count, "append returns the position of the new item");
  VASSERT(C19, a.count() == old._count + 1, "append: count + 1");
  VASSERT(C19, item_eq(a._items[old._count], x), "append stores the item (contents incl. payload) at the end");
  unsigned j = nd_u8(); VASSUME(j < old._count);
  VASSERT(C19, item_eq(a._items[j], old._items[j]), "append: earlier items keep position and contents");
}
extern "C" void proof_da_emplace_args() {
  DA a; nd_array(a); VASSUME(a._count < CAP);
  DA old = a; StateID o = nd_u16(); StateID d = nd_u16(); TransitionType t = (TransitionType) nd_u8();
  auto r = a.emplace(o, d, t);
  VASSERT(C19, r == old._count && a.count() == old._count + 1, "append(args): position and count");
  const Item& n = a._items[old._count];
  VASSERT(C19, n.origin == o && n.destination == d && n.type == t && n.method == Method::NONE, "append(args) constructs the item from the arguments");
#ifdef PAYLOAD_INT
  VASSERT(C19, n.payload() == nullptr, "append(args) without payload exposes none");
#endif
  unsigned j = nd_u8(); VASSUME(j < old._count);
  VASSERT(C19, item_eq(a._items[j], old._items[j]), "append(args): earlier items unchanged");
}
extern "C" void proof_da_bulk() {
  DA a; nd_array(a); DB b; nd_array(b);
  VASSUME(a._count <= CAP && b._count <= CAP2 && a._count + b._count <= CAP);
  VREACH("bulk append");
  if (b._count > 0 && a._count + b._count == CAP) VREACH("bulk append to the brim");
  DA old = a;
  a += b;
  VASSERT(C19, a.count() == old._count + b._count, "bulk append: counts add up");
  unsigned j = nd_u8(); VASSUME(j < old._count);
  VASSERT(C19, item_eq(a._items[j], old._items[j]), "bulk append: earlier items unchanged");
  unsigned k = nd_u8(); VASSUME(k < b._count);
  VASSERT(C19, item_eq(a._items[old._count + k], b._items[k]), "bulk append: appended items in the same order with the same contents");
}
extern "C" void proof_da_copy_clear() {
  DA a; nd_array(a); VASSUME(a._count <= CAP);
  DA c = a;
  VASSERT(C19, c.count() == a.count(), "copy: same count");
  unsigned j = nd_u8(); VASSUME(j < a._count);
  VASSERT(C19, item_eq(c._items[j], a._items[j]), "copy: same items in the same order");
  DA e; nd_array(e); e = a;                          // assignment OVER arbitrary previous contents (e.g. last step's transitions, some with payloads)
  VASSERT(C19/C14, e.count() == a.count() && item_eq(e._items[j], a._items[j]), "assignment replaces the whole sequence, whatever the array held: same items, same payloads, none left over");
  const DA& ca = a;
  VASSERT(C19, &a[j] == &a._items[j] && &ca[j] == &a._items[j], "operator[] addresses item j");
  a.clear();
  VASSERT(C19, a.count() == 0 && a.empty(), "clear empties the array");
  Item x; nd_item(x);
  auto r = a.emplace(x);
  VASSERT(C19, r == 0 && a.count() == 1 && item_eq(a._items[0], x), "after clear the array behaves as new");
}
extern "C" void proof_da_iter() {
  DA a; nd_array(a); VASSUME(a._count <= CAP);
  unsigned n = 0; bool ok = true;
  for (const auto& it : a) { ok = ok && (&it == &a._items[n]); ++n; }
  VASSERT(C19, ok && n == a._count, "iteration visits items 0..count-1 in order");
}

// ---- code contract (contracts/array.spec) on the append used by the request queue; dfcc entry points
#if !defined(PAYLOAD_INT) && CAP == 4
static_assert(__builtin_offsetof(DA, _count) == 0, "contracts/array.spec addresses DynamicArrayT::_count as field f0 of the lowered record");
extern "C" {
unsigned da_capacity(void) { return CAP; }
bool da_item_is(const DA* a, unsigned i, const Item* it) { return i < CAP && item_eq(a->_items[i], *it); }
unsigned da_ghost; unsigned char da_ghost_live; Item da_ghost_item;      // ghost slot of the frame clause (ll2c prints globals with a G_ prefix)
void dfcc_da_emplace() { DA a; Item x; nd_item(x); da_ghost = nd_u8(); da_ghost_live = nd_u8() & 1; nd_item(da_ghost_item); const Item& cx = x; a.emplace(cx); /* const&: the overload under contract (a non-const lvalue picks emplace(TArgs&&...)) */ VREACH("the contract's precondition is satisfiable: the call returns"); }
// a caller that respects the precondition, verified against the callee's CONTRACT only: append into an empty array
void dfcc_da_client() {
  DA a; Item x; nd_item(x);
  da_ghost = 0; da_ghost_live = 0;
  const Item& cx = x; const auto r = a.emplace(cx);
  __CPROVER_assert(r == 0 && a.count() == 1 && da_item_is(&a, 0, &x), "C19: client: the first append lands in slot 0 (by the callee contract alone)");
  // the frame clause, instantiated for slot 0: a second append lands in slot 1 and leaves the first item as it was
  Item y; nd_item(y);
  da_ghost = 0; da_ghost_live = 1; da_ghost_item = x;
  const Item& cy = y; const auto r2 = a.emplace(cy);
  __CPROVER_assert(r2 == 1 && a.count() == 2 && da_item_is(&a, 1, &y) && da_item_is(&a, 0, &x), "C19: client: an append keeps the items appended before it, in order (by the callee contract alone)");
  VREACH("the callee contract is consistent: the client reaches its end");
}
}
#endif
extern "C" void proof_sa() {
  SA s; for (unsigned i = 0; i < CAP; ++i) s._items[i] = nd_u8();
  SA t; for (unsigned i = 0; i < CAP; ++i) t._items[i] = nd_u8();
  unsigned j = nd_u8(); VASSUME(j < CAP);
  bool all_filler = true, differ = false;
  for (unsigned i = 0; i < CAP; ++i) { all_filler = all_filler && s._items[i] == INVALID_SHORT; differ = differ || s._items[i] != t._items[i]; }
  VASSERT(C19, s.empty() == all_filler, "StaticArray::empty <=> every item is the filler");
  VASSERT(C19, (s != t) == differ, "StaticArray::!= <=> some item differs");
  VASSERT(C19, &s[j] == &s._items[j], "StaticArray::operator[] addresses item j");
  Short v = nd_u8(); s.fill(v);
  VASSERT(C19, s._items[j] == v && s.count() == CAP, "fill sets every item");
  s.clear();
  VASSERT(C19, s._items[j] == INVALID_SHORT && s.empty(), "clear resets every item to the filler");
  SA u;
  VASSERT(C19, u._items[j] == 0, "default construction zero-initialises");
  SA w{INVALID_SHORT};
  VASSERT(C19, w.empty(), "construction with filler");
}

extern "C" void verif_drive() {
  DA a; DB b;
  for (int step = 0; step < 300; ++step) {
    unsigned op = nd_u8() % 8;
    Item x; nd_item(x);
    if (op < 3) { if (a.count() < CAP) verif_observe(a.emplace(x)); }
    else if (op < 5) { if (b.count() < CAP2) verif_observe(b.emplace(x.origin, x.destination, x.type)); }
    else if (op == 5) { if (a.count() + b.count() <= CAP) a += b; }
    else if (op == 6) { if (nd_u8() % 4 == 0) a.clear(); }
    else { if (nd_u8() % 4 == 0) b.clear(); }
    verif_observe(a.count()); verif_observe(b.count());
    for (unsigned i = 0; i < a.count(); ++i) { verif_observe(a[i].origin); verif_observe(a[i].destination); verif_observe((uint64_t) a[i].type); verif_observe((uint64_t) a[i].method); }
  }
}
