// C10: behaviour is a function of inputs, callbacks and random numbers only (two-run / self-composition contracts).
// Two instances are constructed by placement-new into two storages whose prior contents are arbitrary and independent
// (uninitialised locals are nondeterministic under CBMC), driven with the same script; traces and answers must agree.
#define HFSM2_ENABLE_UTILITY_THEORY
#define HFSM2_ENABLE_SERIALIZATION
#define HFSM2_ENABLE_TRANSITION_HISTORY
#include "common/verif.hpp"
using namespace hfsm2; using namespace hfsm2::detail;
#define S(s) struct s
// script of callback decisions shared by both runs
static uint8_t g_script[32]; static unsigned g_pos;
#ifndef VD_SCRIPT
#define VD_SCRIPT 0
#endif
// the decision script is CONCRETE (one of several fixed sequences): what is symbolic in these contracts is the prior content
// of the storage, not the callbacks' behaviour - a symbolic script makes the trace length symbolic and the job intractable (L2)
static void fill_script() { for (unsigned i = 0; i < sizeof g_script; ++i) g_script[i] = (uint8_t)(((i * 37u + VD_SCRIPT * 101u + 11u) ^ (i >> 1)) * (VD_SCRIPT + 3u)); }
static uint8_t  next_decision() { return g_pos < sizeof g_script ? g_script[g_pos++] : 0; }
static uint16_t g_trace[2][96]; static unsigned g_len[2]; static int g_run;
static void trace(int state, int method) { if (g_len[g_run] < 96) g_trace[g_run][g_len[g_run]] = (uint16_t)(state * 32 + method); ++g_len[g_run]; }

#ifdef VD_BUILTIN_RNG
using M = hfsm2::Machine;                                         // default config: automatic activation, built-in generator
#else
struct Rng { float next() { return (next_decision() & 127) / 128.0f; } };
using M = hfsm2::MachineT<hfsm2::Config::RandomT<Rng>>;            // automatic activation, user generator
static Rng g_rng;
#endif
using FSM = M::RandomPeerRoot< S(A), M::Resumable<S(B), S(B1), S(B2)>, S(C) >;
template <int ID> struct St : FSM::State {
  Rank rank(const Control&) { trace(ID, 1); return 0; }
  Utility utility(const Control&) { trace(ID, 2); return 1.0f + (next_decision() & 3); }
  void entryGuard(GuardControl& c) { trace(ID, 3); if ((next_decision() & 7) == 0) c.cancelPendingTransitions(); }
  void enter(PlanControl&) { trace(ID, 4); }
  void reenter(PlanControl&) { trace(ID, 5); }
  void update(FullControl& c) { trace(ID, 6); uint8_t d = next_decision(); if ((d & 3) == 1) c.changeTo((StateID)(1 + (d >> 2) % 5)); if ((d & 3) == 2) c.randomize((StateID) 0); }
  void exitGuard(GuardControl& c) { trace(ID, 7); if ((next_decision() & 7) == 0) c.cancelPendingTransitions(); }
  void exit(PlanControl&) { trace(ID, 8); }
};
struct A : St<1> {}; struct B : St<2> {}; struct B1 : St<3> {}; struct B2 : St<4> {}; struct C : St<5> {};
using Instance = FSM::Instance;
union Slot { Instance fsm; Slot() {} ~Slot() {} };

static Instance* construct(Slot& s) {
#ifdef VD_BUILTIN_RNG
  return new (&s.fsm) Instance();
#else
  return new (&s.fsm) Instance(g_rng);
#endif
}
static void drive(Instance& f, uint8_t answers[32]) {
  unsigned n = 0;
  // every observable answer of the API, asked BEFORE the first step as well (a copy must already answer like the original) and after each step
  for (int step = 0; step < 3; ++step) {
    if (step) f.update();
    for (int s = 0; s < 6; ++s) {
      const Instance::Transition* t = f.lastTransitionTo((StateID) s);
      answers[n++ & 31] = (uint8_t)(f.isActive((StateID) s) | (f.isResumable((StateID) s) << 1) | (t ? (1 + t->destination) << 2 : 0));
    }
    if (n < 32) answers[n++ & 31] = (uint8_t) f.previousTransitions().count();
  }
}
extern "C" void proof_two_storages() {
  fill_script();
  uint8_t ans[2][32] = {};
  Slot s1, s2;                                                     // arbitrary, independent prior contents
  g_run = 0; g_pos = 0; Instance* a = construct(s1); drive(*a, ans[0]);
  g_run = 1; g_pos = 0; Instance* b = construct(s2); drive(*b, ans[1]);
  VASSERT(C10, g_len[0] == g_len[1], "identically driven instances invoke the same number of callbacks");
  bool same = true; for (unsigned i = 0; i < 96; ++i) if (i < g_len[0]) same = same && g_trace[0][i] == g_trace[1][i];
  VASSERT(C10, same, "identically driven instances invoke the same callbacks in the same order, whatever their storage contained");
  bool same_ans = true; for (int i = 0; i < 32; ++i) same_ans = same_ans && ans[0][i] == ans[1][i];
  VASSERT(C10, same_ans, "identically driven instances give the same answers");
  VASSERT(C10/C01, a->_core.registry.compoActive[0] < 3, "the activation performed inside the constructor selects a sub-state");
}
// a copy continues exactly as the original would
extern "C" void proof_copy() {
  fill_script();
  uint8_t ans[2][32] = {};
  Slot s1; g_run = 0; g_pos = 0; Instance* a = construct(s1);
  a->update();
  if (VD_SCRIPT != 3)     // (script 3 has two callbacks issue requests in the next step: with a queued one that exceeds the queue capacity of 2 - listed finding KF-C11-queue-overrun)
  a->changeTo((StateID) (1 + (VD_SCRIPT + 2) % 5));              // a request queued from outside is still pending when the copy is taken: the copy must carry it
  const unsigned pos_at_copy = g_pos, len_at_copy = g_len[0];
  Slot s2; Instance* b = new (&s2.fsm) Instance(*a);              // copy
  drive(*a, ans[0]);
  g_run = 1; g_pos = pos_at_copy; drive(*b, ans[1]);
  VASSERT(C10, g_len[0] - len_at_copy == g_len[1], "a copy invokes as many callbacks as the original does from the same point");
  bool same = true; for (unsigned i = 0; i < 96; ++i) if (i < g_len[1] && len_at_copy + i < 96) same = same && g_trace[0][len_at_copy + i] == g_trace[1][i];
  VASSERT(C10, same, "a copy continues exactly as the original would");
  bool same_ans = true; for (int i = 0; i < 32; ++i) same_ans = same_ans && ans[0][i] == ans[1][i];
  VASSERT(C10, same_ans, "a copy gives the same answers as the original");
}
