#define HFSM2_ENABLE_UTILITY_THEORY
#include <hfsm2/machine.hpp>
#include <cstdio>
using M = hfsm2::Machine;
struct A1; struct A2; struct B; struct I;
#ifdef HEADED
struct AH;
using FSM = M::UtilitarianPeerRoot<I, M::Utilitarian<AH, A1, A2>, B>;
struct AH : FSM::State {};
#else
using FSM = M::UtilitarianPeerRoot<I, M::UtilitarianPeers<A1, A2>, B>;
#endif
struct I  : FSM::State { float utility(const Control&) { return 0.1f; } };
struct A1 : FSM::State { float utility(const Control&) { return 0.9f; } };
struct A2 : FSM::State { float utility(const Control&) { return 0.2f; } };
struct B  : FSM::State { float utility(const Control&) { return 0.5f; } };
int main(){ FSM::Instance f; f.immediateUtilize((hfsm2::StateID) 0); printf("A1=%d B=%d I=%d\n", f.isActive<A1>(), f.isActive<B>(), f.isActive<I>()); return f.isActive<A1>() ? 0 : 1; }
